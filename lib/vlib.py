import json, os, re, subprocess, sys, time, shutil, glob, hashlib

VERIF = os.path.dirname(os.path.dirname(os.path.abspath(__file__)))
ENGINE = os.path.join(VERIF, "engine")
WORK = os.path.join(VERIF, "work")
TARGET = os.path.join(WORK, "target")
EVIDENCE = os.path.join(VERIF, "evidence")
REPLAYS = os.path.join(VERIF, "replays")
KNOWN = os.path.join(VERIF, "known_findings.jsonl")


def repo():
    return os.environ.get("VERIF_REPO", "/repo")


def env():
    e = dict(os.environ)
    e["CARGO_NET_OFFLINE"] = "true"
    e["CARGO_TARGET_DIR"] = TARGET
    e.setdefault("RUSTFLAGS", "--cap-lints warn")
    e["CARGO_TERM_COLOR"] = "never"
    return e


class Inconclusive(Exception):
    pass


def sh(cmd, cwd=None, check=True, quiet=True, extra_env=None, timeout=None):
    e = env()
    if extra_env:
        e.update(extra_env)
    p = subprocess.run(cmd, cwd=cwd, env=e, stdout=subprocess.PIPE, stderr=subprocess.STDOUT, text=True, timeout=timeout)
    if check and p.returncode != 0:
        sys.stderr.write(p.stdout[-6000:])
        raise Inconclusive("command failed (%d): %s" % (p.returncode, " ".join(cmd)))
    return p


def render(path_in, path_out):
    s = open(path_in).read().replace("@REPO@", repo())
    old = open(path_out).read() if os.path.exists(path_out) else None
    if old != s:
        with open(path_out, "w") as f:
            f.write(s)


def render_engine():
    for d in ("glue", "libprops", "frontend"):
        p = os.path.join(ENGINE, d, "Cargo.toml.in")
        if os.path.exists(p):
            render(p, os.path.join(ENGINE, d, "Cargo.toml"))
    p = os.path.join(ENGINE, "frontend", "src", "lib.rs.in")
    if os.path.exists(p):
        render(p, os.path.join(ENGINE, "frontend", "src", "lib.rs"))


def build_engine_bin(pkg):
    render_engine()
    sh(["cargo", "build", "-q", "-p", pkg], cwd=ENGINE)
    return os.path.join(TARGET, "debug", pkg)


def load_known():
    out = []
    if os.path.exists(KNOWN):
        for line in open(KNOWN):
            line = line.strip()
            if line:
                out.append(json.loads(line))
    return out


# ---------------------------------------------------------------------------------------------------
# per-property configuration of the progfuzz engine

PROGFUZZ = {
    "C01": dict(
        quick=dict(programs=160, cases=25), thorough=dict(programs=960, cases=120),
        level="exploration",
        rule=("Programs: generated from the positive rule grammar (joins, constants, repeated variables, wildcards, "
              "if/let/if-let, for, expression arguments, 1-2 head clauses, fact rules; recursion templates linear / "
              "right-linear / non-linear / 3 dynamic clauses / mutual). Inputs: proptest strategy per input relation "
              "(size classes 0,1,2-6,7-25,..cap; domains 3,5,8,16,60). Oracle: exact set equality with an independent "
              "naive stratified evaluator, both inclusions, plus row-multiset check. A case is non-trivial when the "
              "reference needed >= 2 productive rounds in a looping stratum and derived >= 1 tuple that was not an input; "
              "distinct = distinct (program text, input) pairs."),
        assumptions=["rustc compiles the generated crate faithfully", "the reference evaluator (engine/core/src/eval.rs) is correct; it is validated by the setup self-test",
                     "value domains are small finite sets; arity <= 4; <= 8 rules per program"],
    ),
    "C03": dict(
        quick=dict(programs=120, cases=25), thorough=dict(programs=1500, cases=100),
        level="exploration",
        rule=("Programs: 1-2 lattice relations (0-2 key columns) over i32/u32 (max), bool, Dual<u32>, Option<u32>, Set<u8>, "
              "BoundedSet<3,u8>, ConstPropagation<u8>, (u32,u32), Product<(u32,Dual<u32>)> (through a Hash-adding newtype); "
              "base rules, linear / non-linear recursion through the lattice with monotone steps (capped add, max, min with "
              "constant, union, identity), cross-lattice rules, upward-closed threshold rules into plain relations with "
              "monotone feedback, arbitrary reads only in later strata. Inputs: weighted graphs over small domains. "
              "Oracle: reference least fixed point (own joins): exactly one row per derivable key with the reference value; "
              "derived plain relations equal as sets. Non-trivial: some key strictly increased >= 2 times (3 values) and "
              "improvements happened in >= 2 different rounds; distinct (program text, input) pairs."),
        assumptions=["rustc compiles the generated crate faithfully", "reference evaluator and its lattice joins (engine/core/src/val.rs) are correct",
                     "only shipped lattice types; rule templates are monotone by construction"],
    ),
    "C04": dict(
        quick=dict(programs=120, cases=25), thorough=dict(programs=1500, cases=100),
        level="exploration",
        rule=("Programs: a positive (usually recursive) or lattice bottom plus 1-3 upper strata whose rules aggregate or negate "
              "relations of strictly lower strata (stratifiable by construction); aggregators count, sum, min, max, mean, "
              "percentile(p<100), explicit not(), !r(..), and three user aggregators (top2: returns up to two values; collect_len: "
              "multiplicity sensitive; min_max: one (lo, hi) tuple destructured by a tuple pattern, with a later clause joined on one "
              "of the two variables); every argument of the aggregated clause is bound / wildcard / constant / expression / "
              "aggregated at random; aggregation over lattices included. Oracle: reference stratified model. Non-trivial: an "
              "aggregate group with >= 2 tuples was evaluated, or a negation was true for some bindings and false for others, "
              "and >= 1 tuple was derived; distinct (program text, input) pairs."),
        assumptions=["rustc compiles the generated crate faithfully", "reference evaluator and its own aggregator definitions are correct",
                     "mean is only used on small integers (sums exact in f64) and cast to i32"],
    ),
    "C02": dict(
        # (thorough: 600 programs with up to four members each; more do not link into one runner binary: the code of a
        # debug build then exceeds what PC-relative relocations can address)
        quick=dict(programs=120, cases=4), thorough=dict(programs=600, cases=12),
        # the shard count of the concurrent indices is fixed per process by the first use: 64 shards and 4 shards
        proc_configs=[dict(VERIF_FIRST_POOL=16), dict(VERIF_FIRST_POOL=1)],
        level="exploration",
        rule=("Programs from the full grammar (relations, lattices, negation, aggregation), each printed as ascent! (reference form), "
              "ascent_par!, ascent_par! + #![inter_rule_parallelism] and (every third) ascent_run_par!. Every parallel form runs in "
              "explicit rayon pools of 1, 2, 3, 4, 8 and 16 threads, several repetitions per pool, half of them with seeded "
              "perturbation (yield / spin / sleep) at the hook points in the concurrent insert paths and in the generated head-update "
              "code, 4 cases in flight at once (oversubscription). Oracle: relation sets, lattice values and row multisets equal the "
              "reference evaluator's (and hence the serial program's, which is checked against the same oracle); a panic is a "
              "violation; a hang trips the watchdog (exit 2). Non-trivial: pool size >= 2 and >= 1 head tuple / lattice key derived "
              ">= 2 times within one round (two workers can race on it); distinct (program text, input) pairs."),
        assumptions=["thread interleavings are sampled (perturbation + pool sweep + oversubscription), not enumerated",
                     "rustc compiles the generated crate faithfully", "the reference evaluator is correct"],
    ),
    "C05": dict(
        quick=dict(programs=96, cases=8), thorough=dict(programs=720, cases=26),
        proc_configs=[dict(VERIF_FIRST_POOL=16), dict(VERIF_FIRST_POOL=1)],
        level="exploration",
        rule=("Programs built to maximise re-derivation: duplicated rules, two head clauses into the same relation, derived relations "
              "that also receive input facts, projection rules (many body matches, <= 2 distinct head tuples), inputs containing caller "
              "duplicates; serial and ascent_par! (pools 1,2,3,4,8,16 with seeded perturbation). Oracle on the dumped rows: the row "
              "multiset of every relation = multiset(input rows) + set(reference result minus input); one row per lattice key; no input "
              "row lost. The same row check runs inside every other progfuzz property. Non-trivial: >= 1 tuple derived twice within a "
              "round or re-derived in a later round (or already an input); distinct (program text, input) pairs. Every third program also has a member with #![inter_rule_parallelism]."),
        assumptions=["thread interleavings are sampled, not enumerated", "rustc compiles the generated crate faithfully", "the reference evaluator is correct"],
    ),
    "C13": dict(
        quick=dict(programs=100, cases=20), thorough=dict(programs=800, cases=60),
        level="exploration",
        rule=("Histories (proptest vec of ops, shrunk as one value) over generated programs from the full grammar, serial and "
              "ascent_par! (pools 1 and 4): initial facts, then run() / push(tuple into any plain relation, derived ones included) "
              "in any order, always ending with run(); run(). Pushes happen only for programs without negation / aggregation "
              "(the property's premise); a tuple the relation already holds is not pushed again. Model: the multiset of everything "
              "pushed so far. Oracle after every run(): relations equal the reference evaluator's result on the model (sets, lattice "
              "values, row multisets); a panic is a violation. Non-trivial: a push after a run whose consequences need a join with "
              "tuples stored by an earlier run (reference: some new tuple is derivable neither before the push nor from the pushed "
              "facts alone), or for idempotence a re-run of a program with aggregates / negation on >= 2 input rows; distinct "
              "(program text, initial facts, history). Every third program writes the default provider out, every fifth is built around "
              "a BYODS relation; a history whose final model the bounded reference evaluator gives up on is skipped (and counted) "
              "before any compiled program runs."),
        assumptions=["rustc compiles the generated crate faithfully", "the reference evaluator is correct", "pushes go to plain relations only (a caller cannot push a second row for a lattice key)"],
    ),
    "C14": dict(
        quick=dict(programs=48, cases=5), thorough=dict(programs=400, cases=12),
        level="fault_enumeration",
        rule=("Programs from the full grammar compiled with #![generate_run_timeout] (serial and ascent_par! in pools 1 and 4) x "
              "generated inputs. Per case the full run is executed with the deadline-check counter hook in counting mode (R checks); "
              "then EVERY k in 1..=R is a crash point: fresh instance, the k-th deadline check fires, run_timeout(1h) must return "
              "false with a sound partial state (every tuple in the reference fixed point, every lattice value <= the final one), "
              "and a resuming run() / run_timeout must reach exactly the reference fixed point with no duplicate rows; plus 4 "
              "sequences of 2-4 repeated interruptions per case. evaluations = interrupted runs. A crash point is non-trivial when "
              "the partial state holds derived tuples but not yet the whole fixed point; distinct (program, input, point). Every sixth program is built around a BYODS relation (serial)."),
        assumptions=["the deadline can only be observed where the generated code evaluates __check_return_conditions! (the hook counts exactly those places)",
                     "BYODS relations are not part of these programs", "rustc compiles the generated crate faithfully", "the reference evaluator is correct"],
    ),
    "C20": dict(
        quick=dict(programs=30, cases=150), thorough=dict(programs=120, cases=600),
        level="exploration",
        proc_configs=[dict(VERIF_FIRST_POOL=1), dict(VERIF_FIRST_POOL=2), dict(VERIF_FIRST_POOL=16),
                      dict(RAYON_NUM_THREADS=1), dict(RAYON_NUM_THREADS=3), dict(VERIF_FIRST_POOL=2, RAYON_NUM_THREADS=3)],
        rule=("Scenarios (proptest vec of 2-5 instances, shrunk as one value) over one compiled batch of programs from the full "
              "grammar in serial and ascent_par! form: every instance is constructed in a pool, loaded, then run / pushed to / run "
              "again, each step in its own pool drawn from {global, custom 1,2,3,4,8,16, nested (custom pool entered from a worker of "
              "another)}; all instances start their first run together from a barrier on std threads. Each scenario set runs in "
              "fresh processes whose first use of ascent (which fixes the process-wide shard count) happens in a pool of 1, 2 or 16 "
              "threads and under RAYON_NUM_THREADS unset / 1 / 3. Oracle: every instance's relations after each run equal the "
              "reference evaluator's result on what that instance was given (hence what it computes alone), with the row-multiset "
              "check; panics (shard-count asserts, frozen / unfrozen unwraps) are violations. Non-trivial: a parallel instance is "
              "involved and either >= 2 overlapping instances use different pool sizes or its construction / run pools differ in "
              "size; distinct scenarios. Every second program also has a member with #![inter_rule_parallelism], and about 40 % of the "
              "later instances of a scenario are twins of the first one (another value of the same generated type with its own inputs "
              "and pools)."),
        assumptions=["thread interleavings are sampled, not enumerated", "rustc compiles the generated crate faithfully", "the reference evaluator is correct"],
    ),
    "C06": dict(
        quick=dict(programs=64, cases=16), thorough=dict(programs=600, cases=60),
        level="exploration",
        rule=("Base programs from the full grammar; per base 3 variants chosen by seed among {permuted rules, permuted declarations, "
              "reversed head clauses, randomly permuted body items (only admissible orders: expressions after their binders), "
              "alpha-renamed variables and relations (names that look generated without being reserved)}, plus the same program fed "
              "the input rows in another order; every fourth base is free of interpreted functions and additionally gets two injective "
              "constant renamings (c -> 1000c+7, and c -> \"k<c>\" with the column type changed to String). Oracle (metamorphic + "
              "reference): every variant's result, mapped back through its renaming, equals the reference result of the base; the "
              "engine's transforms are self-checked by evaluating the variant AST with the reference too. Non-trivial: >= 1 derived "
              "tuple and some variant's plan (summary(): index sets, simple-join status, rule / SCC order) differs from the base's "
              "or hash placement changes (renamed constants / input order); distinct (program text, input) pairs. Every sixth base has "
              "in-program macros (always with the renaming variant), every seventh is built around an eqrel / trrel / trrel_uf relation, "
              "every second also runs as ascent_par!."),
        assumptions=["rustc compiles the generated crate faithfully", "the reference evaluator is correct", "constant renaming only for the uninterpreted fragment, as the property states"],
    ),
    "C07": dict(
        # (thorough: 400 programs with three or four members each; 700 no longer link into one runner binary)
        quick=dict(programs=80, cases=20), thorough=dict(programs=400, cases=100),
        level="exploration",
        rule=("Sugared programs: positive base plus 2-4 rules that combine disjunctions (2-3 disjuncts binding a common variable, with "
              "conditions, negations and nested disjunctions inside), ?pattern arguments, repeated variables, expression arguments over "
              "earlier columns of the same clause, wildcards, !r(..), 1-2 head clauses, fact rules, attached conditions. The engine's "
              "own desugarer produces the documented core form (one rule per choice of disjuncts and per head clause; fresh variable + "
              "if-let / equality test; agg () = not()), in two flavours (equality tests only inside a clause / also across clauses). "
              "Oracle, three-way: compiled sugared program = compiled core program(s) = reference on the sugared AST (and the reference "
              "on the core AST, as a self-check of the desugarer). Non-trivial: a looping stratum needed >= 2 productive rounds and "
              ">= 1 tuple was derived; distinct (program text, input) pairs."),
        assumptions=["rustc compiles the generated crate faithfully", "the reference evaluator interprets the sugar natively and is correct"],
    ),
    "C08": dict(
        quick=dict(programs=80, cases=20), thorough=dict(programs=700, cases=60),
        level="exploration",
        rule=("Programs whose macros are abstracted from generated rule bodies (ident parameters for variables that enter or leave the "
              "fragment, an expr parameter for a constant / expression argument, every other identifier of the body is macro-local), "
              "plus a nested macro (passes its parameters on and adds a clause with local variables x, y, z), a head macro, and extra "
              "call sites: the same macro once or twice in one rule, with arguments drawn from a pool of five variable names shared "
              "with the macro bodies (x, y, z, w, v), so that call-site variables are regularly spelled like macro-local ones; a "
              "two-hop macro with a local join variable invoked twice in a rule, inside and after disjunctions, from a wrapper macro whose "
              "own local is spelled the same or with a digit suffix (x / x1 / x2), and in a form whose local is bound in one disjunct "
              "only. Oracle "
              "(real rustc, span identity matters): compiled macro program = compiled hand expansion (the engine's reference expander: "
              "parameters substituted, body-local identifiers fresh per invocation) = reference evaluator on the expansion. "
              "Non-trivial: >= 1 derived tuple and the input distinguishes the hygienic reading from the capturing one (the "
              "reference also evaluates the non-hygienic expansion; the case counts only if the two results differ); distinct "
              "(program text, input) pairs."),
        assumptions=["rustc compiles the generated crate faithfully", "the reference expander implements the documented reading (MACROS.MD)",
                     "every non-parameter identifier of a macro body is bound inside that body (free ones are outside the documented promise)"],
    ),
    "C09": dict(
        # (thorough: 220 bases with about ten packagings each; more do not link into one runner binary)
        quick=dict(programs=48, cases=12), thorough=dict(programs=220, cases=70),
        level="exploration",
        rule=("Base program (full grammar) as ascent!, plus a seeded choice of up to 6 packagings out of: ascent_run! / ascent_run_par! "
              "with the inputs as captured locals (fed by `for t in local.iter()` rules or by `relation r(..) = local`), "
              "ascent_source! modules cut at random positions (0..n items before, the included slice, the rest after) included into "
              "ascent!, ascent_par! and ascent_run!, `relation r(..) = expr` in ascent! / ascent_par! (initialiser evaluated in "
              "Default), an earlier decoy declaration of an initialised relation with different rows (the later declaration must "
              "win), #![measure_rule_times] (serial; parallel together with inter_rule_parallelism), #![generate_run_timeout] with "
              "run(), a struct signature with a type parameter and a where clause (serial, parallel, across an include); every sixth "
              "base has in-program macros with includes cut between declarations, macro definitions and rules. Oracle: every variant equals the reference result of the base (sets, lattice values, row multisets). The whole "
              "batch is additionally built and run a second time with ascent's segment-codegen cargo feature. Non-trivial: a looping "
              "stratum with >= 2 productive rounds and >= 1 derived tuple; distinct (program text, input) pairs."),
        build_configs=[dict(), dict(VERIF_ASCENT_FEATURES="segment-codegen")],
        assumptions=["rustc compiles the generated crate faithfully", "the reference evaluator is correct",
                     "the generic struct signature is exercised through one type parameter used by an extra pair of relations (rules with constants cannot be printed generically)"],
    ),
    "C10": dict(
        quick=dict(programs=90, cases=25), thorough=dict(programs=1000, cases=100),
        level="exploration",
        rule="Program skeletons around a tagged relation R (binary R(T,T) and ternary R(K,T,T), T = u32): feeders: from inputs, recursive through nxt / through another relation, staged by a tick relation that advances inside R's stratum (facts for the same key / class arrive over many iterations), key-to-key propagation for the ternary form (keys pause and resume), readers that feed R again; readers with every bound-column subset (free, first, second, both, repeated variable R(x,x), constant, wildcard; with and without the key), R as first, second or third clause or followed by a further clause, three-clause rules with the key free and one or both value columns bound, !R(..) and count() over R (through either column) in a later stratum; a collapse feeder (a hub related to something gets related to every element inside the stratum); a sparse ternary form (one or two constant edges under every key: many keys, few nodes); every third program has a single-pattern profile (all readers use one access pattern, no negation / counting, so the provider builds only the indices of that pattern; the arity x pattern profiles are enumerated by program index). Inputs: small graphs with chains, cycles, self loops, back edges, several keys. Oracle: the reference evaluator on the same program with R closed explicitly after every round (eqrel: reflexive on mentioned elements, symmetric, transitive, per key), observed through plain relations (R's own field is a FakeVec); a panic is a violation. Non-trivial: facts reach R in >= 2 distinct rounds of its stratum; distinct (program text, input) pairs.; every fourth binary program also as ascent_par! in pools 1, 2, 4, 8 with perturbation",
        assumptions=["rustc compiles the generated crate faithfully", "the reference evaluator and its explicit closure (engine/core/src/eval.rs close_ds) are correct",
                     "element type u32; access patterns limited to those the provider macros accept"],
    ),
    "C11": dict(
        quick=dict(programs=90, cases=25), thorough=dict(programs=1000, cases=100),
        level="exploration",
        rule="Program skeletons around a tagged relation R (binary R(T,T) and ternary R(K,T,T), T = u32): feeders: from inputs, recursive through nxt / through another relation, staged by a tick relation that advances inside R's stratum (facts for the same key / class arrive over many iterations), key-to-key propagation for the ternary form (keys pause and resume), readers that feed R again; readers with every bound-column subset (free, first, second, both, repeated variable R(x,x), constant, wildcard; with and without the key), R as first, second or third clause or followed by a further clause, three-clause rules with the key free and one or both value columns bound, !R(..) and count() over R (through either column) in a later stratum; a collapse feeder (a hub related to something gets related to every element inside the stratum); a sparse ternary form (one or two constant edges under every key: many keys, few nodes); every third program has a single-pattern profile (all readers use one access pattern, no negation / counting, so the provider builds only the indices of that pattern; the arity x pattern profiles are enumerated by program index). Inputs: small graphs with chains, cycles, self loops, back edges, several keys. Oracle: the reference evaluator on the same program with R closed explicitly after every round (trrel: transitive closure per key, so cycles imply (x,x)), observed through plain relations (R's own field is a FakeVec); a panic is a violation. Non-trivial: facts reach R in >= 2 distinct rounds of its stratum; distinct (program text, input) pairs.",
        assumptions=["rustc compiles the generated crate faithfully", "the reference evaluator and its explicit closure (engine/core/src/eval.rs close_ds) are correct",
                     "element type u32; access patterns limited to those the provider macros accept"],
    ),
    "C12": dict(
        quick=dict(programs=90, cases=25), thorough=dict(programs=1000, cases=100),
        level="exploration",
        rule="Program skeletons around a tagged relation R (binary R(T,T) and ternary R(K,T,T), T = u32): feeders: from inputs, recursive through nxt / through another relation, staged by a tick relation that advances inside R's stratum (facts for the same key / class arrive over many iterations), key-to-key propagation for the ternary form (keys pause and resume), readers that feed R again; readers with every bound-column subset (free, first, second, both, repeated variable R(x,x), constant, wildcard; with and without the key), R as first, second or third clause or followed by a further clause, three-clause rules with the key free and one or both value columns bound, !R(..) and count() over R (through either column) in a later stratum; a collapse feeder (a hub related to something gets related to every element inside the stratum); a sparse ternary form (one or two constant edges under every key: many keys, few nodes); every third program has a single-pattern profile (all readers use one access pattern, no negation / counting, so the provider builds only the indices of that pattern; the arity x pattern profiles are enumerated by program index). Inputs: small graphs with chains, cycles, self loops, back edges, several keys. Oracle: the reference evaluator on the same program with R closed explicitly after every round (trrel_uf: reflexive on mentioned elements + transitive, per key), observed through plain relations (R's own field is a FakeVec); a panic is a violation. Non-trivial: facts reach R in >= 2 distinct rounds of its stratum; distinct (program text, input) pairs.",
        assumptions=["rustc compiles the generated crate faithfully", "the reference evaluator and its explicit closure (engine/core/src/eval.rs close_ds) are correct",
                     "element type u32; access patterns limited to those the provider macros accept"],
    ),
}

def build_ws(ws, prop, batches, big=False):
    """Builds the batch workspace. If some batch crates do not compile (possible only when the tree under test changed the
    macro or the library), the programs with error diagnostics are returned as compile failures, the failing batches are
    dropped from the runner and the rest is built and run."""
    # large workspaces (thorough tiers) are built with fewer parallel jobs: a compiler process of one of their crates can
    # take 8-12 GB, sixteen of them at once do not fit into the machine's memory
    jobs = ["-j", "6"] if big else []
    pr = sh(["cargo", "build", "-q"] + jobs, cwd=ws, check=False)
    if pr.returncode == 0:
        return []
    pr = sh(["cargo", "build", "-q", "--keep-going"] + jobs, cwd=ws, check=False)
    if "SIGKILL" in pr.stdout or "signal: 9" in pr.stdout:
        # a compiler process was killed (out of memory while many large crates were compiled at once): not a property
        # of the generated code. Retries with few parallel jobs, then the usual attribution.
        for jobs in ("4", "2"):
            time.sleep(20)
            pr = sh(["cargo", "build", "-q", "--keep-going", "-j", jobs], cwd=ws, check=False)
            if pr.returncode == 0:
                return []
            if "SIGKILL" not in pr.stdout and "signal: 9" not in pr.stdout:
                break
    failed = sorted(set(re.findall(r"could not compile `\w+?_b(\d+)`", pr.stdout)), key=int)
    if not failed:
        # no generated crate is at fault: typically a compiler process killed for lack of memory while many large
        # crates were built at once (thorough tiers on a loaded machine). Retries with few parallel jobs.
        for jobs in ("4", "2"):
            pr2 = sh(["cargo", "build", "-q", "-j", jobs], cwd=ws, check=False)
            if pr2.returncode == 0:
                return []
            time.sleep(20)
        errs = [l for l in pr2.stdout.splitlines() if l.startswith("error")]
        sys.stderr.write("\n".join(errs[:20]) + "\n" + pr2.stdout[-2500:])
        raise Inconclusive("cargo build failed outside the generated program crates: %s" % (errs[0][:200] if errs else "no error line"))
    out = []
    # split the diagnostics and attribute them to modules
    diags = re.split(r"\n(?=error)", pr.stdout)
    for b in failed:
        lib = open(os.path.join(ws, "b" + b, "src", "lib.rs")).read().split("\n")
        starts = [(i + 1, l.split()[2]) for i, l in enumerate(lib) if l.startswith("pub mod p")]
        ends = [i + 1 for i, l in enumerate(lib) if l.startswith("pub fn entries()")]
        seen = set()
        for d in diags:
            m = re.search(r"--> b%s/src/lib\.rs:(\d+)" % b, d)
            if not m:
                continue
            line = int(m.group(1))
            mod = None
            for (st, name) in starts:
                if st <= line:
                    mod = (st, name)
            if mod is None or mod[1] in seen:
                continue
            seen.add(mod[1])
            nxt = min([st for (st, _) in starts if st > mod[0]] + ends)
            code = re.match(r"error(\[E\d+\])?", d).group(1) or ""
            out.append(dict(batch="b" + b, module=mod[1], code=code, diagnostic=d[:1500],
                            module_src="\n".join(lib[mod[0] - 1: nxt - 1]),
                            cargo_toml_in=open(os.path.join(ws, "b" + b, "Cargo.toml.in")).read()))
    if not out:
        sys.stderr.write(pr.stdout[-4000:])
        raise Inconclusive("generated program crates failed to build without an attributable diagnostic")
    # drop the failing batches from the runner crate
    rd = os.path.join(ws, "runall")
    for f in ("Cargo.toml", os.path.join("src", "main.rs")):
        path = os.path.join(rd, f)
        if not os.path.exists(path + ".full"):
            shutil.copy(path, path + ".full")
        txt = open(path + ".full").read().split("\n")
        txt = [l for l in txt if not any(re.search(r"_b%s\b" % b, l) for b in failed)]
        open(path, "w").write("\n".join(txt))
    pr = sh(["cargo", "build", "-q", "-p", "run_" + prop.lower()], cwd=ws, check=False)
    if pr.returncode != 0:
        sys.stderr.write(pr.stdout[-4000:])
        raise Inconclusive("runner does not build after dropping the non-compiling batches")
    return out


def compile_violation(prop, seed, tier, cf):
    m = re.search(r"ascent(_run|_par|_run_par)?! \{.*", cf["module_src"], re.S)
    return dict(property=prop, base="%s/%s" % (cf["batch"], cf["module"]), signature="compile:%s" % cf["code"],
                failures=[dict(kind="compile_error", what="a generated well-formed program of this property's fragment does not compile on this tree, "
                               "so the property's conclusion cannot hold for it", diagnostic=cf["diagnostic"])],
                program_text=cf["module_src"][:6000], input_text="", seed=seed, tier=tier,
                compile_replay=dict(module_src=cf["module_src"], cargo_toml_in=cf["cargo_toml_in"]))


def replay_compile(prop, rd):
    """replays a compile-failure violation: the saved module alone in a crate of its own"""
    d = os.path.join(WORK, "replay-compile-" + prop)
    os.makedirs(os.path.join(d, "src"), exist_ok=True)
    cr = rd["compile_replay"]
    toml = cr["cargo_toml_in"].replace("@REPO@", repo())
    toml = re.sub(r'name = "\w+"', 'name = "rcompile_%s"' % prop.lower(), toml, count=1) + "\n[workspace]\n"
    open(os.path.join(d, "Cargo.toml"), "w").write(toml)
    open(os.path.join(d, "src", "lib.rs"), "w").write("#![allow(warnings)]\n" + cr["module_src"] + "\n")
    if not os.path.exists(os.path.join(d, "Cargo.lock")):
        shutil.copy(os.path.join(ENGINE, "Cargo.lock"), os.path.join(d, "Cargo.lock"))
    render_engine()
    pr = sh(["cargo", "build", "-q"], cwd=d, check=False)
    if pr.returncode == 0:
        return False, ""
    if "error" not in pr.stdout or "src/lib.rs" not in pr.stdout:
        sys.stderr.write(pr.stdout[-3000:])
        raise Inconclusive("compile replay failed outside the program")
    return True, pr.stdout[-3000:]

def prune_target(limit_gb=30):
    """The shared cargo target directory accumulates one set of artifacts per content hash of every generated batch
    crate and per location of the repository under test (VERIF_REPO). Past the limit it is removed as a whole; the next
    build recreates what it needs (about a minute)."""
    deps = os.path.join(TARGET, "debug", "deps")
    if not os.path.isdir(deps):
        return
    try:
        total = sum(os.path.getsize(os.path.join(deps, f)) for f in os.listdir(deps))
    except OSError:
        return
    if total >= limit_gb * (1 << 30):
        shutil.rmtree(os.path.join(TARGET, "debug"), ignore_errors=True)


def progfuzz(prop, tier, seed, replay=None):
    cfg = PROGFUZZ[prop]
    t0 = time.time()
    tcfg = cfg[tier]
    prune_target()
    out = os.path.join(WORK, prop)
    os.makedirs(out, exist_ok=True)
    vgen = build_engine_bin("vgen")
    replay_data = None
    if replay:
        replay_data = json.load(open(replay))
        if replay_data.get("rerun"):
            # a crash has no smaller reproducible unit than the run itself: repeat it at the recorded seed and tier
            return dict(replay=False, rerun=dict(seed=replay_data.get("seed", seed), tier=replay_data.get("tier", tier)))
        if replay_data.get("compile_replay"):
            failed, tail = replay_compile(prop, replay_data)
            return dict(replay=True, failed=failed, detail=dict(replayed="compile", failed=failed, diagnostic=tail))
        out = os.path.join(WORK, "replay-" + prop)
        os.makedirs(out, exist_ok=True)
        sh([vgen, "--prop", prop, "--tier", tier, "--seed", str(seed), "--out", out, "--engine", ENGINE,
            "--from-replay", os.path.abspath(replay)])
    else:
        sh([vgen, "--prop", prop, "--tier", tier, "--seed", str(seed), "--out", out, "--engine", ENGINE,
            "--findings", VERIF]
           + (["--programs", str(tcfg["programs"])] if "programs" in tcfg else []))
    ws = os.path.join(out, "ws")
    plan = json.load(open(os.path.join(out, "plan.json")))
    for f in glob.glob(os.path.join(ws, "runall", "**", "*.full"), recursive=True):
        os.remove(f)
    render_engine()
    for b in range(plan["batches"]):
        d = os.path.join(ws, "b%d" % b)
        render(os.path.join(d, "Cargo.toml.in"), os.path.join(d, "Cargo.toml"))
    lock_src = os.path.join(ENGINE, "Cargo.lock")
    if not os.path.exists(os.path.join(ws, "Cargo.lock")):
        shutil.copy(lock_src, os.path.join(ws, "Cargo.lock"))
    exe = os.path.join(TARGET, "debug", plan["runner"])
    if replay:
        base = replay_data["base"]
        sh(["cargo", "build", "-q"], cwd=ws)
        res_path = os.path.join(out, "replay_result.json")
        pr = sh([exe, "--prop", prop, "--tier", tier, "--seed", str(seed),
                 "--out", res_path, "--replay", replay, "--only", base], check=False,
                extra_env={k: str(v) for k, v in (replay_data.get("proc_config") or {}).items()})
        if pr.returncode == 3:
            return dict(replay=True, failed=True, detail=dict(replayed=1, failed=1, signature="%s:deadlock" % prop,
                                                              failures=[dict(kind="deadlock", what="the replayed case deadlocks again")]))
        if pr.returncode == 4:
            return dict(replay=True, failed=True, detail=dict(replayed=1, failed=1, signature="%s:divergence" % prop,
                                                              failures=[dict(kind="divergence", what="the replayed case does not terminate again")]))
        if pr.returncode == 1:
            r = json.load(open(res_path))
            return dict(replay=True, failed=True, detail=r)
        if pr.returncode != 0:
            sys.stderr.write(pr.stdout[-3000:])
            raise Inconclusive("replay run failed")
        return dict(replay=True, failed=False, detail=json.load(open(res_path)))
    res_path = os.path.join(out, "result.json")
    results = []
    compile_failures = []
    for bc in cfg.get("build_configs", [dict()]):
        feats = bc.get("VERIF_ASCENT_FEATURES", "")
        for b in range(plan["batches"]):
            d = os.path.join(ws, "b%d" % b)
            txt = open(os.path.join(d, "Cargo.toml.in")).read().replace("@REPO@", repo())
            if feats:
                txt = txt.replace('ascent = { path = "%s/ascent" }' % repo(),
                                  'ascent = { path = "%s/ascent", features = [%s] }'
                                  % (repo(), ", ".join('"%s"' % f for f in feats.split(","))))
            cur = os.path.join(d, "Cargo.toml")
            if not os.path.exists(cur) or open(cur).read() != txt:
                open(cur, "w").write(txt)
        compile_failures.extend(cf for cf in build_ws(ws, prop, plan["batches"], big=plan.get("programs", 0) > 800)
                                if (cf["batch"], cf["module"]) not in {(c["batch"], c["module"]) for c in compile_failures})
        for pc in cfg.get("proc_configs", [dict(VERIF_FIRST_POOL=16)]):
            if os.path.exists(res_path):
                os.remove(res_path)
            extra = {k: str(v) for k, v in pc.items()}
            pr = sh([exe, "--prop", prop, "--tier", tier, "--seed", str(seed),
                     "--cases", str(tcfg["cases"]), "--out", res_path], check=False, extra_env=extra)
            dl_path = res_path + (".divergence.json" if pr.returncode == 4 else ".deadlock.json")
            if pr.returncode in (3, 4) and os.path.exists(dl_path):
                # every thread of the runner was blocked for >= 10 s with a case outstanding: deadlock in the code under test
                dl = json.load(open(dl_path))
                bases = dl.get("bases") or []
                mp = sh([exe, "--prop", prop, "--members-of", ",".join(bases), "--out", res_path + ".tmp"], check=False, extra_env=extra)
                try:
                    mem = json.loads(mp.stdout.strip().splitlines()[-1])
                except Exception:
                    mem = dict(members=[], program_text="")
                v = dict(property=prop, base=(bases or ["?"])[0], seed=seed, program_text=mem["program_text"], ref_ast="",
                         input=json.loads(dl.get("input") or "{}"), input_text="process config %s\n%s" % (pc, (dl.get("ops") or dl.get("input") or "")[:3000]),
                         failures=[dict(variant="?", entry="?", pool=None, perturb_seed=0, kind="deadlock" if pr.returncode == 3 else "divergence", mismatches=[],
                                        panic_msg=("run() did not return: no progress for %ss and no thread of the process consumed CPU time (%s idle windows of 5 s)"
                                                   % (dl.get("no_progress_s"), dl.get("idle_cpu_windows_of_5s"))) if pr.returncode == 3 else
                                                  ("run() did not return: no progress for %ss while the process consumed %ss of CPU on a case the bounded reference evaluator finished"
                                                   % (dl.get("no_progress_s"), dl.get("cpu_seconds_since_progress"))))],
                         signature="%s:%s" % (prop, "deadlock" if pr.returncode == 3 else "divergence"), shrunk=False, entries=[], members=mem["members"], ops=dl.get("ops"), proc_config=pc)
                results.append(dict(evaluations=1, runs=1, nontrivial=0, too_big=0, distribution={("deadlocked_runner_processes" if pr.returncode == 3 else "diverging_runner_processes"): 1},
                                    samples=[dict(deadlocked_case=(dl.get("ops") or dl.get("input") or "")[:2000], process_config=pc)],
                                    violations=[v], infra_errors=[], known=[]))
                continue
            if not os.path.exists(res_path) and (pr.returncode < 0 or pr.returncode in (134, 139)):
                # killed by a signal (abort / segmentation fault) inside generated or library code
                tail = pr.stdout[-1500:]
                v = dict(property=prop, base="crash", seed=seed, program_text=tail, ref_ast="", input={}, input_text="process config %s" % pc,
                         failures=[dict(variant="?", entry="?", pool=None, perturb_seed=0, kind="crash", mismatches=[],
                                        panic_msg="the runner was killed by signal %d while executing generated programs" % (-pr.returncode if pr.returncode < 0 else pr.returncode - 128))],
                         signature="%s:crash" % prop, shrunk=False, entries=[], members=[], ops=None, proc_config=pc, rerun=True, tier=tier)
                results.append(dict(evaluations=1, runs=1, nontrivial=0, too_big=0, distribution={"crashed_runner_processes": 1},
                                    samples=[dict(crashed_run=dict(seed=seed, tier=tier, process_config=pc))], violations=[v], infra_errors=[], known=[]))
                continue
            if not os.path.exists(res_path):
                sys.stderr.write(pr.stdout[-4000:])
                raise Inconclusive("runner exited with %d (%s)" % (pr.returncode, pc))
            r = json.load(open(res_path))
            if pc:
                r["distribution"]["process_config:" + ",".join("%s=%s" % kv for kv in sorted(pc.items()))] = r["evaluations"]
                for v in r["violations"]:
                    v["proc_config"] = pc
            if feats:
                r["distribution"]["build_config:ascent features=" + feats] = r["evaluations"]
                # the second build runs the same (program, input) cases: not counted again as distinct cases
                r["nontrivial"] = 0
            results.append(r)
    return dict(replay=False, results=results, plan=plan, wall=time.time() - t0, cfg=cfg, tcfg=tcfg, compile_failures=compile_failures)


def merge_progfuzz(prop, tier, seed, run):
    cfg = run["cfg"]
    cov = dict(evaluations=0, distinct_nontrivial=0, rule=cfg["rule"], samples=[], programs=run["plan"]["programs"],
               program_runs=0, too_big_skipped=0, distribution={}, groups=run["plan"]["groups"],
               excluded_by_known_findings=run["plan"].get("excluded_by_known_findings", {}))
    violations = []
    infra = []
    for r in run["results"]:
        cov["evaluations"] += r["evaluations"]
        cov["program_runs"] += r["runs"]
        cov["distinct_nontrivial"] += r["nontrivial"]
        cov["too_big_skipped"] += r["too_big"]
        for k, v in r["distribution"].items():
            cov["distribution"][k] = cov["distribution"].get(k, 0) + v
        if len(cov["samples"]) < 4:
            cov["samples"].extend(r["samples"][: 4 - len(cov["samples"])])
        violations.extend(r["violations"])
        infra.extend(r["infra_errors"])
        cov.setdefault("known_replays", []).extend(r.get("known", []))
    for cf in run.get("compile_failures", []):
        violations.append(compile_violation(prop, seed, tier, cf))
        cov["distribution"]["generated_programs_that_do_not_compile"] = cov["distribution"].get("generated_programs_that_do_not_compile", 0) + 1
    return cov, violations, infra


def write_evidence(prop, tier, seed, level, coverage, assumptions, wall, nviol):
    os.makedirs(EVIDENCE, exist_ok=True)
    ev = dict(property_id=prop, tier=tier, seed=seed, level=level, coverage=coverage, assumptions=assumptions,
              wall_s=round(wall, 2), violations=nviol)
    with open(os.path.join(EVIDENCE, prop + ".json"), "w") as f:
        json.dump(ev, f, indent=1, default=str)


def match_known(prop, violation, known):
    sig = violation.get("signature", "")
    for k in known:
        if k.get("status") == "known" and k.get("property") == prop:
            pat = k.get("signature_prefix")
            if pat and sig.startswith(pat):
                return k
    return None


def run_known_replays(prop, tier, seed, known, runner):
    """Every open finding's committed replay is executed; while it still fails it prints a KNOWN-FINDING line."""
    lines = []
    for k in known:
        if k.get("property") != prop or k.get("status") != "known":
            continue
        lines.append("KNOWN-FINDING: property=%s %s" % (prop, k.get("what", k.get("signature_prefix", ""))))
    return lines


def finish(prop, tier, seed, level, cov, assumptions, wall, violations, infra):
    allk = [k for k in load_known() if k.get("property") == prop]
    known = [k for k in allk if k.get("status") == "known"]
    fixed = [k for k in allk if k.get("status") == "fixed"]
    new = []
    known_hits = {}
    # the trigger shapes of open findings are excluded by construction, so nothing the search reports is
    # attributed to a known finding: every failing generated case is a violation
    new.extend(violations)
    lines = []
    replays = {o["id"]: o for o in cov.pop("known_replays", [])}
    status = {}
    for k in known:
        o = replays.get(k["id"])
        if o is None:
            if k.get("replay"):
                infra.append("known finding %s: committed replay was not executed" % k["id"])
            continue
        if o["failed"] and (o.get("signature") or "") == k.get("signature"):
            lines.append("KNOWN-FINDING: property=%s %s: %s" % (prop, k["id"], k["what"]))
            status[k["id"]] = "still fails (signature %s)" % o.get("signature")
        elif o["failed"]:
            v = dict(property=prop, base=k["id"], signature=o.get("signature"), failures=o.get("failures"),
                     program_text="(committed replay of %s fails with a different signature)" % k["id"], input_text="")
            new.append(v)
            status[k["id"]] = "fails differently: %s" % o.get("signature")
        else:
            status[k["id"]] = "committed replay passes on this tree"
    for k in fixed:
        o = replays.get(k["id"])
        if o is None:
            if k.get("replay"):
                infra.append("fixed finding %s: committed regression replay was not executed" % k["id"])
            continue
        if o["failed"]:
            new.append(dict(property=prop, base=k["id"], signature=o.get("signature"), failures=o.get("failures"),
                            program_text="(regression: the committed replay of fixed finding %s fails again)" % k["id"], input_text=""))
            status[k["id"]] = "REGRESSION: %s" % o.get("signature")
        else:
            status[k["id"]] = "fixed; regression replay passes"
    cov["known_finding_hits"] = known_hits
    cov["known_finding_replays"] = status
    write_evidence(prop, tier, seed, level, cov, assumptions, wall, len(new))
    for l in lines:
        print(l)
    if infra:
        for i in infra[:5]:
            sys.stderr.write("infrastructure error: %s\n" % i[:2000])
        if not new:
            print("INCONCLUSIVE property=%s (%d infrastructure errors)" % (prop, len(infra)))
            return 2
        # a violation was found all the same (e.g. the runner deadlocked or crashed before it reached the committed
        # replays): it is reported; the infrastructure errors are on stderr
    if new:
        os.makedirs(REPLAYS, exist_ok=True)
        for i, v in enumerate(new):
            name = "%s-seed%s-%s.json" % (prop, seed, hashlib.sha1(json.dumps(v, sort_keys=True, default=str).encode()).hexdigest()[:10])
            path = os.path.join(REPLAYS, name)
            v = dict(v)
            v["tier"] = tier
            with open(path, "w") as f:
                json.dump(v, f, indent=1, default=str)
            print("VIOLATION property=%s replay=%s" % (prop, path))
            f0 = v["failures"][0] if v.get("failures") else {}
            sys.stderr.write("--- %s %s\n%s\ninput:\n%s\n%s\n" % (v.get("base"), v.get("signature"), v.get("program_text", ""),
                                                              v.get("input_text", ""), json.dumps(f0, indent=1)[:3000]))
        return 1
    print("OK property=%s tier=%s seed=%s evaluations=%d nontrivial=%d wall=%.1fs" %
          (prop, tier, seed, cov.get("evaluations", 0), cov.get("distinct_nontrivial", 0), wall))
    return 0


LIBPROPS = {
    "C16": dict(level="exploration",
        rule=("All pairs and triples of every bounded carrier (bool; u8 / i8 / usize / i64 at extremal and middle values; Option, "
              "Rc / Arc / Box, Reverse, Dual, OrdLattice liftings; tuples of 1-3 components; Product of tuples and arrays, including "
              "Product over Set and Dual components; Set<u8> over {0,1,2}; BoundedSet<2> over 0..4 and BoundedSet<1>; "
              "ConstPropagation over 0..3; nested compositions such as Dual<Option<Product<(u8, Dual<bool>)>>>) enumerated "
              "exhaustively, plus proptest-generated triples over i32, larger Set<u8>, BoundedSet<4, u8> and "
              "Product<(u16, Dual<Option<i8>>)>. Laws per triple: commutativity, associativity, idempotence, absorption, "
              "a <= b <=> join(a,b) = b <=> meet(a,b) = a against the type's PartialOrd, join_mut / meet_mut leave the value of "
              "join / meet and return true iff the receiver changed; Dual / Reverse swap the operations; top / bottom extremal. "
              "evaluations = law instances (triples); non-trivial = ordered pairs with a != b (incomparable pairs counted separately)."),
        assumptions=["PartialEq / Debug of the shipped types are trusted", "full-width integers and large sets are sampled, the listed small carriers are exhaustive"]),
    "C17": dict(level="exploration",
        rule=("Multisets of i64 (empty, singleton, 2-200 elements, small ranges with duplicates, constant, sorted, reversed), p drawn "
              "from {0, 100, uniform [0,100], k*100/len +- 1e-9}, the same multiset handed over through seven iterator shapes with truthful size hints (exact; (0, n); (n/2, n); "
              "(1, n); a peeked filter; (n, None); (n - n/2, n): count branches on the hint). Oracle: own definitions on a sorted copy (min, max, sum, cardinality, sum/n for mean on values < 1000, percentile = "
              "element of rank min(floor(n*p/100), n-1), not = one unit iff empty; empty-input outcomes); any panic is a violation. "
              "Non-trivial: n >= 2 and (a duplicate value, or p on a rank boundary or at an end point)."),
        assumptions=["mean is compared exactly: inputs are integers below 1000 in absolute value, so the f64 sum is exact"]),
    "C18": dict(level="exploration",
        rule=("TrRelUnionFind<u8>: every add-sequence of length 5 over 3 elements and of length 4 over 4 elements (all prefixes are "
              "checked on the way, so all shorter sequences are covered), plus proptest sequences up to length 60 over 8 elements "
              "biased towards back edges over already merged classes, repeated pairs and self pairs. After every add: contains for "
              "all pairs, iter_all (as a set and without duplicates), set_of, rev_set_of, count_exact against Warshall's "
              "reflexive-transitive closure; assert_disjoint_invariant and assert_set_connections_dominant_sets must not panic. "
              "UnionFind<u8>: histories of add, find_item, union_add and the unsafe id-level find / union on ids returned by add "
              "(the documented precondition); find_item equality must match a naive partition, len / is_empty must match. "
              "Non-trivial: the history contains an add that closes a cycle through a third element (class collapse), or a union "
              "of two multi-element classes."),
        assumptions=["the return value of TrRelUnionFind::add is not part of the property and is not checked"]),
    "C19": dict(level="exploration",
        rule=("Per index type (RelIndexType1, LatticeIndexType, RelFullIndexType, RelNoIndexType, CRelIndex, CLatIndex, CRelFullIndex, "
              "CRelNoIndex; RelIndexCombined over (total, delta) of each) histories of up to 40 operations over keys and values 0..6 on "
              "a (new, delta, total) triple created in one pool: index_insert through the &mut path and through the concurrent &self "
              "path, insert_if_not_present (full indices; keys unique across versions as in generated code), "
              "merge_delta_to_total_new_to_delta with either side larger and keys on both sides, freeze / unfreeze cycles, lookups "
              "of present and absent keys, iter_all, contains_key, is_empty, against a model triple of multimaps (sets for the "
              "set-backed types). Concurrent rounds: 6-24 rayon workers in pools of 2, 4, 8 insert overlapping batches into CRelIndex, "
              "CLatIndex, CRelNoIndex with seeded perturbation at the hook points and race insert_if_not_present on one key of a "
              "CRelFullIndex: every insert must be retained and exactly one racer wins. Non-trivial history: >= 2 merges, one taking "
              "the 'delta larger than total' swap path and one not, with a key occupied on both sides; every concurrent round."),
        assumptions=["thread interleavings of the concurrent rounds are sampled, not enumerated"]),
}

# ---- coverage-guided fuzzing stage (thorough tier of C15, C17, C18, C19) -------------------------------------------
FUZZ_TARGETS = {
    # target: (property, processes, runs per process, max_len)
    "agg": ("C17", 1, 150000, 6000),
    "trrel_uf": ("C18", 4, 12000, 160),
    "uf": ("C18", 1, 300000, 240),
    "index": ("C19", 3, 12000, 200),
    "frontend": ("C15", 8, 1500, 400),
}


def fuzz_replay_cmd(target, path):
    if target == "frontend":
        return [os.path.join(WORK, "target-fe", "debug", "vfrontend"), "fuzz-replay", path]
    return [build_engine_bin("libprops"), "fuzz-replay", target, path]


def fuzz_stage(prop, seed, scale=1.0):
    """Builds the cargo-fuzz crate (nightly, ASan) and runs this property's targets: fresh corpus seeded with deterministic
    random files, fixed -runs and -seed. Returns (coverage dict, violations). A crash artifact is a violation; it is
    confirmed by replaying it through the plain (non-fuzz) binary before it is reported; a libFuzzer timeout / OOM is
    inconclusive."""
    targets = [t for t, v in FUZZ_TARGETS.items() if v[0] == prop]
    render_engine()
    fdir = os.path.join(ENGINE, "fuzz")
    render(os.path.join(fdir, "Cargo.toml.in"), os.path.join(fdir, "Cargo.toml"))
    if not os.path.exists(os.path.join(fdir, "Cargo.lock")):
        shutil.copy(os.path.join(ENGINE, "Cargo.lock"), os.path.join(fdir, "Cargo.lock"))
    tdir = os.path.join(WORK, "target-fuzz")
    pr = sh(["cargo", "+nightly", "fuzz", "build", "--fuzz-dir", "fuzz", "--target-dir", tdir], cwd=ENGINE, check=False)
    if pr.returncode != 0:
        sys.stderr.write(pr.stdout[-3000:])
        raise Inconclusive("cargo fuzz build failed")
    libprops_exe = build_engine_bin("libprops")
    if "frontend" in targets:
        fe_dir = os.path.join(ENGINE, "frontend")
        sh(["cargo", "build", "-q"], cwd=fe_dir, extra_env={"CARGO_TARGET_DIR": os.path.join(WORK, "target-fe")})
    procs = []
    for t in targets:
        _, nproc, runs, max_len = FUZZ_TARGETS[t]
        runs = max(100, int(runs * scale))
        base = os.path.join(WORK, "fz", t)
        shutil.rmtree(base, ignore_errors=True)
        os.makedirs(os.path.join(base, "corpus"))
        sh([libprops_exe, "fuzz-corpus", t, os.path.join(base, "seeds"), "24", str(seed)])
        exe = os.path.join(tdir, "x86_64-unknown-linux-gnu", "release", t)
        for i in range(nproc):
            art = os.path.join(base, "art%d" % i)
            os.makedirs(art)
            log = open(os.path.join(base, "log%d.txt" % i), "w")
            cmd = [exe, "-runs=%d" % runs, "-seed=%d" % (seed * 1000 + i + 1), "-max_len=%d" % max_len, "-len_control=0", "-timeout=120",
                   "-rss_limit_mb=4096", "-artifact_prefix=" + art + "/", "-print_final_stats=1",
                   os.path.join(base, "corpus"), os.path.join(base, "seeds")]
            procs.append((t, i, art, subprocess.Popen(cmd, stdout=log, stderr=subprocess.STDOUT, env=env()), log))
    cov = {}
    violations = []
    inconclusive = []
    for (t, i, art, p, log) in procs:
        rc = p.wait()
        log.close()
        txt = open(log.name, errors="replace").read()
        m = re.search(r"stat::number_of_executed_units: (\d+)", txt)
        execs = int(m.group(1)) if m else 0
        c = cov.setdefault(t, dict(executions=0, processes=0, coverage_edges=0, features=0))
        c["executions"] += execs
        c["processes"] += 1
        for mm in re.finditer(r"cov: (\d+) ft: (\d+)", txt):
            c["coverage_edges"] = max(c["coverage_edges"], int(mm.group(1)))
            c["features"] = max(c["features"], int(mm.group(2)))
        arts = sorted(os.listdir(art))
        if rc != 0 or arts:
            crash = [a for a in arts if a.startswith("crash-")]
            other = [a for a in arts if not a.startswith("crash-")]
            for a in crash[:3]:
                src = os.path.join(art, a)
                rp = subprocess.run(fuzz_replay_cmd(t, src), stdout=subprocess.PIPE, stderr=subprocess.STDOUT, text=True, env=env())
                fail = [l for l in txt.splitlines() if l.startswith("FAILURE")]
                if rp.returncode == 1:
                    os.makedirs(REPLAYS, exist_ok=True)
                    dst = os.path.join(REPLAYS, "fuzz-%s-%s" % (t, a[6:22]))
                    shutil.copy(src, dst)
                    violations.append(dict(property=prop, base="fuzz:" + t, signature="fuzz:%s:%s" % (t, (rp.stdout.strip().splitlines() or ["?"])[0][:160]),
                                           failures=[dict(kind="fuzz_crash", target=t, what=rp.stdout[-1500:])], program_text=rp.stdout[-3000:], input_text="",
                                           seed=seed, tier="thorough", fuzz_artifact=dst))
                else:
                    # crashed inside the fuzzer (sanitizer report, abort) but the plain binary accepts the input
                    san = "AddressSanitizer" in txt or "ERROR: libFuzzer: deadly signal" in txt
                    if san and not fail:
                        os.makedirs(REPLAYS, exist_ok=True)
                        dst = os.path.join(REPLAYS, "fuzz-%s-%s" % (t, a[6:22]))
                        shutil.copy(src, dst)
                        tail = txt[txt.find("ERROR"):][:1500]
                        violations.append(dict(property=prop, base="fuzz:" + t, signature="fuzz:%s:sanitizer" % t,
                                               failures=[dict(kind="sanitizer_report", target=t, what=tail)], program_text=tail, input_text="", seed=seed,
                                               tier="thorough", fuzz_artifact=dst))
                    else:
                        inconclusive.append("%s: crash artifact %s does not reproduce outside the fuzzer" % (t, a))
            if other or (rc != 0 and not crash):
                inconclusive.append("%s: libFuzzer exit %d, artifacts %s (timeout / out of memory)" % (t, rc, other[:3]))
    # how many of the coverage-distinct inputs the campaign kept are non-trivial
    for t in targets:
        base = os.path.join(WORK, "fz", t, "corpus")
        cmd = ([os.path.join(WORK, "target-fe", "debug", "vfrontend"), "fuzz-stats", base] if t == "frontend" else [libprops_exe, "fuzz-stats", t, base])
        rp = subprocess.run(cmd, stdout=subprocess.PIPE, stderr=subprocess.DEVNULL, text=True, env=env())
        try:
            st = json.loads(rp.stdout.strip().splitlines()[-1])
            cov[t]["corpus_files"] = st["files"]
            cov[t]["corpus_nontrivial"] = st["nontrivial"]
        except Exception:
            pass
    if inconclusive and not violations:
        raise Inconclusive("; ".join(inconclusive[:3]))
    return cov, violations


def merge_fuzz(cov, fcov):
    cov["coverage_guided_fuzzing"] = dict(engine="cargo-fuzz 0.13 / libFuzzer, AddressSanitizer, nightly", targets=fcov,
                                          note="fresh corpus seeded with 24 deterministic random files per target; fixed -runs and -seed per process")
    for t, c in fcov.items():
        cov["evaluations"] += c["executions"]
        cov["distinct_nontrivial"] += c.get("corpus_nontrivial", 0)
        cov.setdefault("distribution", {})["fuzz_executions:" + t] = c["executions"]


def libprops(prop, tier, seed):
    t0 = time.time()
    exe = build_engine_bin("libprops")
    out = os.path.join(WORK, "libprops_%s.json" % prop)
    if os.path.exists(out):
        os.remove(out)
    pr = sh([exe, prop, "--tier", tier, "--seed", str(seed), "--out", out], check=False)
    if pr.returncode < 0 or pr.returncode in (134, 139):
        # the test binary was killed by a signal (abort, segmentation fault): memory corruption or an abort inside the
        # library code it drives (never seen on the unchanged tree); the whole run at this seed is the replay
        cfg = LIBPROPS[prop]
        tail = pr.stdout[-1500:]
        v = dict(property=prop, base="%s-libprops" % prop, signature="%s:crash:signal %d" % (prop, -pr.returncode if pr.returncode < 0 else pr.returncode - 128),
                 failures=[dict(kind="crash", what="the property test binary was killed by a signal while driving the library", output_tail=tail)],
                 program_text=tail, input_text="", seed=seed, tier=tier, rerun=True)
        cov = dict(evaluations=1, distinct_nontrivial=0, rule=cfg["rule"], samples=[dict(crashed_run=dict(seed=seed, tier=tier))], distribution={"crashed_runs": 1})
        return finish(prop, tier, seed, cfg["level"], cov, cfg["assumptions"], time.time() - t0, [v], [])
    if pr.returncode != 0 or not os.path.exists(out):
        sys.stderr.write(pr.stdout[-3000:])
        raise Inconclusive("libprops exited with %d" % pr.returncode)
    r = json.load(open(out))
    cfg = LIBPROPS[prop]
    cov = dict(evaluations=r["evaluations"], distinct_nontrivial=r["nontrivial"], rule=cfg["rule"], samples=r["samples"] or [r["distribution"]],
               distribution=r["distribution"], notes=r.get("notes", []), exhaustive=False,
               exhaustive_part=("the bounded carriers / sequence bounds named in the rule are enumerated completely" if prop in ("C16", "C18") else "none"))
    viol = []
    for i, v in enumerate(r["violations"]):
        viol.append(dict(property=prop, base="%s-libprops" % prop, signature="%s:%s" % (prop, json.dumps(v)[:160]),
                         failures=[v], program_text=json.dumps(v, indent=1), input_text="", seed=seed, tier=tier,
                         replay_how="./check %s --tier %s --seed %d re-runs the same generated sequence" % (prop, tier, seed)))
    if tier == "thorough" and any(v[0] == prop for v in FUZZ_TARGETS.values()) and not viol:
        fcov, fviol = fuzz_stage(prop, seed, float(os.environ.get("VERIF_FUZZ_SCALE", "1")))
        merge_fuzz(cov, fcov)
        viol.extend(fviol)
    return finish(prop, tier, seed, cfg["level"], cov, cfg["assumptions"], time.time() - t0, viol, [])


def cargo_check_json(crate_dir, target_dir):
    """cargo check --message-format=json; returns (list of error diagnostics as (line, message), raw tail)."""
    render(os.path.join(crate_dir, "Cargo.toml.in"), os.path.join(crate_dir, "Cargo.toml"))
    lock = os.path.join(crate_dir, "Cargo.lock")
    if not os.path.exists(lock):
        shutil.copy(os.path.join(ENGINE, "Cargo.lock"), lock)
    e = env()
    e["CARGO_TARGET_DIR"] = target_dir
    p = subprocess.run(["cargo", "check", "-q", "--message-format=json"], cwd=crate_dir, env=e,
                       stdout=subprocess.PIPE, stderr=subprocess.PIPE, text=True)
    errs = []
    for line in p.stdout.splitlines():
        try:
            m = json.loads(line)
        except ValueError:
            continue
        if m.get("reason") != "compiler-message":
            continue
        msg = m["message"]
        if msg.get("level") != "error":
            continue
        def lines_of(spans):
            out = []
            for sp in spans:
                if sp.get("file_name", "").endswith("src/lib.rs"):
                    out.append(sp["line_start"])
                exp = sp.get("expansion")
                while exp:
                    sp2 = exp.get("span", {})
                    if sp2.get("file_name", "").endswith("src/lib.rs"):
                        out.append(sp2["line_start"])
                    exp = sp2.get("expansion")
            return out
        ls = lines_of(msg.get("spans", []))
        for ch in msg.get("children", []):
            ls += lines_of(ch.get("spans", []))
        errs.append((ls, msg.get("message", ""), (msg.get("rendered") or "")[:600]))
    return errs, p.returncode, p.stderr[-2000:]


def c15(tier, seed):
    prop = "C15"
    t0 = time.time()
    out = os.path.join(WORK, prop)
    os.makedirs(out, exist_ok=True)
    vgen = build_engine_bin("vgen")
    render_engine()
    sh([vgen, "--prop", prop, "--tier", tier, "--seed", str(seed), "--out", out, "--engine", ENGINE])
    # in-process front end (own workspace: resolver 1)
    fe_dir = os.path.join(ENGINE, "frontend")
    if not os.path.exists(os.path.join(fe_dir, "Cargo.lock")):
        shutil.copy(os.path.join(ENGINE, "Cargo.lock"), os.path.join(fe_dir, "Cargo.lock"))
    fe_target = os.path.join(WORK, "target-fe")
    sh(["cargo", "build", "-q"], cwd=fe_dir, extra_env={"CARGO_TARGET_DIR": fe_target})
    res_path = os.path.join(out, "inproc.json")
    pr = sh([os.path.join(fe_target, "debug", "vfrontend"), os.path.join(out, "cases.json"), res_path], check=False)
    cases = {c["id"]: c for c in json.load(open(os.path.join(out, "cases.json")))}
    if pr.returncode != 0:
        # the front end died (stack overflow of a non-terminating expansion: SIGSEGV / SIGABRT) or did not return within
        # 60 s on one case (exit 3): the property demands a rejection instead
        cur = None
        try:
            cur = open(res_path + ".current").read().strip()
        except OSError:
            pass
        sys.stderr.write(pr.stdout[-1500:])
        if cur in cases and (pr.returncode < 0 or pr.returncode in (3, 134, 139)):
            c = cases[cur]
            how = "did not return within 60 s" if pr.returncode == 3 else "crashed (exit %d: stack overflow / abort)" % pr.returncode
            v = dict(property=prop, base=cur, signature="C15:inproc:%s:front end %s" % (c["operator"], "hang" if pr.returncode == 3 else "crash"),
                     failures=[dict(kind="front_end_" + ("hang" if pr.returncode == 3 else "crash"), what="the macro front end %s on this program (%s at %s)" % (how, c["operator"], c["site"]),
                                    output_tail=pr.stdout[-600:])],
                     program_text="%s! {\n%s\n}" % (c["kind"], c["text"]), input_text="", seed=seed, tier=tier)
            cov = dict(evaluations=1, distinct_nontrivial=0, rule="see a passing run", samples=[dict(operator=c["operator"], site=c["site"], macro=c["kind"], program=c["text"])],
                       distribution={"front_end_died": 1})
            write_evidence(prop, tier, seed, "exploration", cov, [], time.time() - t0, 1)
            os.makedirs(REPLAYS, exist_ok=True)
            name = "%s-seed%s-%s.json" % (prop, seed, hashlib.sha1(json.dumps(v, sort_keys=True, default=str).encode()).hexdigest()[:10])
            with open(os.path.join(REPLAYS, name), "w") as f:
                json.dump(v, f, indent=1, default=str)
            print("VIOLATION property=%s replay=%s" % (prop, os.path.join(REPLAYS, name)))
            return 1
        raise Inconclusive("in-process front end run failed (%d)" % pr.returncode)
    results = json.load(open(res_path))
    violations = []
    dist = {}
    stages = {}
    triples = set()
    evaluations = 0
    samples = []
    for r in results:
        c = cases[r["id"]]
        o = r["outcome"]
        kind = o if isinstance(o, str) else list(o.keys())[0]
        detail = "" if isinstance(o, str) else list(o.values())[0]
        evaluations += 1
        dist["operator:" + c["operator"]] = dist.get("operator:" + c["operator"], 0) + 1
        dist["inproc_outcome:" + kind] = dist.get("inproc_outcome:" + kind, 0) + 1
        bad = None
        if kind == "Panicked":
            bad = "the macro front end panicked: %s" % detail
        elif kind == "LexError":
            raise Inconclusive("generated text does not lex: %s" % c["text"][:300])
        elif c["expect"] == "reject" and kind != "Rejected":
            bad = "ill-formed program (%s at %s) accepted by the front end" % (c["operator"], c["site"])
        elif c["expect"] == "accept_wellformed" and kind != "Accepted":
            bad = "well-formed generated program rejected by the macro: %s" % detail
        if kind == "Rejected":
            stage = ("stratification" if "stratified" in detail else "arity" if "arity" in detail else "undefined relation" if "not defined" in detail
                     else "shadowing" if "shadows" in detail else "recursive macro" if "recursively" in detail else "attribute" if "ttribute" in detail or "`ds`" in detail or "lattice" in detail
                     else "include_source" if "include_source" in detail else "other")
            stages[stage] = stages.get(stage, 0) + 1
        if c["expect"] != "accept_wellformed":
            site_class = c["site"].split(":")[-1] if ":" in c["site"] else c["site"].rstrip("0123456789")
            first = c["site"].startswith("rule0")
            if not first:
                triples.add((c["operator"], site_class, c["kind"]))
            if len(samples) < 3 and c["operator"] in ("unstratifiable_via_second_rule", "wrong_arity", "rebind_agg") and not first:
                samples.append(dict(operator=c["operator"], site=c["site"], macro=c["kind"], program=c["text"], front_end=o))
        if bad:
            violations.append(dict(property=prop, base=r["id"], signature="C15:inproc:%s:%s" % (c["operator"], kind),
                                   failures=[dict(kind=kind, detail=detail, what=bad)], program_text="%s! {\n%s\n}" % (c["kind"], c["text"]),
                                   input_text="", seed=seed, tier=tier))
    # rustc tier
    rustc_target = os.path.join(WORK, "target-c15")
    ill_errs, rc, tail = cargo_check_json(os.path.join(out, "ill"), rustc_target)
    mods = json.load(open(os.path.join(out, "ill_modules.json")))
    if rc == 0:
        violations.append(dict(property=prop, base="rustc-tier", signature="C15:rustc:crate of ill-formed programs compiles",
                               failures=[dict(what="cargo check succeeded on %d ill-formed programs" % len(mods))], program_text="", input_text="", seed=seed, tier=tier))
    for m in mods:
        hits = [e for e in ill_errs if any(m["from"] <= l <= m["to"] for l in e[0])]
        evaluations += 1
        dist["rustc_tier_modules"] = dist.get("rustc_tier_modules", 0) + 1
        if any("proc macro panicked" in e[1] or "proc macro panicked" in e[2] for e in hits):
            violations.append(dict(property=prop, base=m["module"], signature="C15:rustc:proc macro panicked:%s" % m["operator"],
                                   failures=[dict(what="proc macro panicked", diagnostics=[e[2] for e in hits][:2])], program_text=cases[m["module"]]["text"], input_text="", seed=seed, tier=tier))
        elif not hits and rc != 0:
            violations.append(dict(property=prop, base=m["module"], signature="C15:rustc:no diagnostic:%s" % m["operator"],
                                   failures=[dict(what="no error diagnostic inside the line range of this ill-formed program (%s at %s, %s!)" % (m["operator"], m["site"], m["kind"]))],
                                   program_text=cases[m["module"]]["text"], input_text="", seed=seed, tier=tier))
    if any("proc macro panicked" in e[1] for e in ill_errs):
        dist["proc_macro_panics"] = sum(1 for e in ill_errs if "proc macro panicked" in e[1])
    # converse direction: known compile-time rejections of well-formed programs, and controls
    wf_errs, wf_rc, _ = cargo_check_json(os.path.join(out, "wf"), rustc_target)
    wf_mods = json.load(open(os.path.join(out, "wf_modules.json")))
    known = {k["id"]: k for k in load_known() if k.get("property") == prop and k.get("status") == "known"}
    known_by_mod = {"kf2": "KF-2", "kf4": "KF-4", "kf9": "KF-9", "kf20": "KF-20"}
    lines = []
    status = {}
    for m in wf_mods:
        hits = [e for e in wf_errs if any(m["from"] <= l <= m["to"] for l in e[0])]
        evaluations += 1
        kid = known_by_mod.get(m["module"])
        if kid:
            if hits and kid in known:
                lines.append("KNOWN-FINDING: property=%s %s: %s" % (prop, kid, known[kid]["what"]))
                status[kid] = "still rejected by rustc: " + hits[0][1][:120]
            elif hits:
                violations.append(dict(property=prop, base=m["module"], signature="C15:wf:%s rejected but not listed as known" % kid,
                                       failures=[dict(what=hits[0][2])], program_text="", input_text="", seed=seed, tier=tier))
            else:
                status[kid] = "compiles on this tree"
        elif hits:
            violations.append(dict(property=prop, base=m["module"], signature="C15:wf:control rejected",
                                   failures=[dict(what="well-formed control program does not compile", diagnostic=hits[0][2])], program_text="", input_text="", seed=seed, tier=tier))
    cov = dict(evaluations=evaluations, distinct_nontrivial=len(triples),
               rule=("Well-formed generated base program (positive / lattice / stratified / sugared) + exactly one violation operator at a random site, "
                     "printed under one of the four macros (ascent_source for the include_source case): undeclared relation and wrong arity "
                     "(+1 / -1 argument) at a head / body / aggregate / negation clause; negation or aggregation of the rule's own head "
                     "relation, directly or through a second rule that closes the cycle; rebinding a clause-bound variable by let / if let / "
                     "for / an aggregate pattern; self- and mutually recursive macro; #[ds] on a lattice; two #[ds] attributes; unknown program "
                     "attribute; inter_rule_parallelism on a serial macro; unknown relation attribute; include_source! inside ascent_source!. "
                     "Oracle, in-process (the repository's own pipeline files compiled as a library, with a 60 s non-termination watchdog): "
                     "Err, never Ok, never a panic; every well-formed base is accepted (converse). Oracle, rustc tier: a crate holding a seeded "
                     "sample of the ill-formed programs (>= 2 per operator) and every case the front end accepts (unknown relation attribute): "
                     ">= 1 error diagnostic inside each program's line range, none of them 'proc macro panicked'; a second crate holds the "
                     "open compile-time findings about well-formed programs (KF-2, KF-4, KF-9), the program of the repaired KF-20 and two controls that must compile. "
                     "distinct_nontrivial = distinct (operator, site class, macro kind) triples whose site is not in the first rule."),
               samples=samples, distribution=dist, rejection_stage=stages, rustc_tier_modules=len(mods),
               wellformed_compile_findings=status)
    if tier == "thorough" and not violations:
        fcov, fviol = fuzz_stage(prop, seed, float(os.environ.get("VERIF_FUZZ_SCALE", "1")))
        merge_fuzz(cov, fcov)
        evaluations = cov["evaluations"]
        violations.extend(fviol)
    write_evidence(prop, tier, seed, "exploration", cov,
                   ["rustc diagnostics are attributed to programs by line range", "arbitrary token soup is outside the property's quantifier and is not generated"],
                   time.time() - t0, len(violations))
    for l in lines:
        print(l)
    if violations:
        os.makedirs(REPLAYS, exist_ok=True)
        for v in violations[:20]:
            name = "%s-seed%s-%s.json" % (prop, seed, hashlib.sha1(json.dumps(v, sort_keys=True, default=str).encode()).hexdigest()[:10])
            path = os.path.join(REPLAYS, name)
            with open(path, "w") as f:
                json.dump(v, f, indent=1, default=str)
            print("VIOLATION property=%s replay=%s" % (prop, path))
            sys.stderr.write("--- %s\n%s\n%s\n" % (v["signature"], v.get("program_text", "")[:1500], json.dumps(v["failures"])[:800]))
        return 1
    print("OK property=%s tier=%s seed=%s evaluations=%d nontrivial=%d wall=%.1fs" % (prop, tier, seed, evaluations, len(triples), time.time() - t0))
    return 0


def c08_recursion(tier, seed):
    """C08, last clause: a macro that refers to itself (directly, mutually, behind a base case in a disjunction) is
    rejected instead of expanding forever. The ill-formed cases of the C15 generator with the recursive-macro operators
    are run through the repository's front end compiled in-process; anything but a rejection is a violation."""
    out = os.path.join(WORK, "C08-rec")
    os.makedirs(out, exist_ok=True)
    vgen = build_engine_bin("vgen")
    render_engine()
    sh([vgen, "--prop", "C15", "--tier", tier, "--seed", str(seed), "--out", out, "--engine", ENGINE])
    cases = [c for c in json.load(open(os.path.join(out, "cases.json"))) if c["operator"].startswith("recursive_macro")]
    json.dump(cases, open(os.path.join(out, "rec_cases.json"), "w"))
    fe_dir = os.path.join(ENGINE, "frontend")
    if not os.path.exists(os.path.join(fe_dir, "Cargo.lock")):
        shutil.copy(os.path.join(ENGINE, "Cargo.lock"), os.path.join(fe_dir, "Cargo.lock"))
    fe_target = os.path.join(WORK, "target-fe")
    sh(["cargo", "build", "-q"], cwd=fe_dir, extra_env={"CARGO_TARGET_DIR": fe_target})
    res_path = os.path.join(out, "inproc.json")
    pr = sh([os.path.join(fe_target, "debug", "vfrontend"), os.path.join(out, "rec_cases.json"), res_path], check=False)
    by_id = {c["id"]: c for c in cases}
    viol = []
    dist = {"recursive_macro_cases": len(cases)}
    if pr.returncode != 0:
        cur = None
        try:
            cur = open(res_path + ".current").read().strip()
        except OSError:
            pass
        if cur in by_id and (pr.returncode < 0 or pr.returncode in (3, 134, 139)):
            c = by_id[cur]
            how = "did not return within 60 s" if pr.returncode == 3 else "crashed (exit %d: stack overflow / abort)" % pr.returncode
            viol.append(dict(property="C08", base=cur, signature="C08:recursive macro:front end %s" % ("hang" if pr.returncode == 3 else "crash"),
                             failures=[dict(kind="front_end_died", what="the macro front end %s instead of rejecting a self-referential macro (%s at %s)" % (how, c["operator"], c["site"]))],
                             program_text="%s! {\n%s\n}" % (c["kind"], c["text"]), input_text="", seed=seed, tier=tier, rerun=True))
            return dist, viol
        sys.stderr.write(pr.stdout[-1500:])
        raise Inconclusive("in-process front end run failed (%d)" % pr.returncode)
    for r in json.load(open(res_path)):
        c = by_id[r["id"]]
        o = r["outcome"]
        kind = o if isinstance(o, str) else list(o.keys())[0]
        detail = "" if isinstance(o, str) else list(o.values())[0]
        site_class = c["site"].split(":")[-1]
        dist["recursive_macro:%s:%s" % (site_class, kind)] = dist.get("recursive_macro:%s:%s" % (site_class, kind), 0) + 1
        if kind != "Rejected":
            viol.append(dict(property="C08", base=r["id"], signature="C08:recursive macro:%s" % kind,
                             failures=[dict(kind=kind, detail=detail, what="a self-referential macro (%s at %s) was not rejected" % (c["operator"], c["site"]))],
                             program_text="%s! {\n%s\n}" % (c["kind"], c["text"]), input_text="", seed=seed, tier=tier, rerun=True))
    return dist, viol


def main(argv):
    if not argv:
        print(__doc__)
        return 2
    prop = argv[0]
    tier = os.environ.get("VERIF_TIER", "quick")
    seed = int(os.environ.get("VERIF_SEED", "1"))
    replay = None
    i = 1
    while i < len(argv):
        if argv[i] == "--tier":
            tier = argv[i + 1]
        elif argv[i] == "--seed":
            seed = int(argv[i + 1])
        elif argv[i] == "--replay":
            replay = argv[i + 1]
        else:
            print("unknown argument", argv[i])
            return 2
        i += 2
    t0 = time.time()
    try:
        if prop in PROGFUZZ:
            run = progfuzz(prop, tier, seed, replay)
            if run.get("rerun"):
                seed, tier = run["rerun"]["seed"], run["rerun"]["tier"]
                run = progfuzz(prop, tier, seed, None)
            if run["replay"]:
                if run["failed"]:
                    print("VIOLATION property=%s replay=%s" % (prop, replay))
                    sys.stderr.write(json.dumps(run["detail"], indent=1)[:4000] + "\n")
                    return 1
                print("OK replay passes: %s" % json.dumps({k: run["detail"].get(k) for k in ("replayed", "failed")}))
                return 0
            cov, violations, infra = merge_progfuzz(prop, tier, seed, run)
            cfg = run["cfg"]
            if prop == "C08" and not violations:
                rdist, rviol = c08_recursion(tier, seed)
                cov["distribution"].update(rdist)
                cov["evaluations"] += rdist.get("recursive_macro_cases", 0)
                violations.extend(rviol)
            return finish(prop, tier, seed, cfg["level"], cov, cfg["assumptions"], time.time() - t0, violations, infra)
        if replay and (os.path.basename(replay).startswith("fuzz-") or (replay.endswith(".json") and "fuzz_artifact" in open(replay, errors="replace").read(200000))):
            # a saved fuzz input (or the JSON record pointing at one): replayed through the plain binary, no fuzzer needed
            path = replay
            if not os.path.basename(replay).startswith("fuzz-"):
                path = json.load(open(replay))["fuzz_artifact"]
            target = os.path.basename(path)[5:].rsplit("-", 1)[0]
            render_engine()
            if target == "frontend":
                sh(["cargo", "build", "-q"], cwd=os.path.join(ENGINE, "frontend"), extra_env={"CARGO_TARGET_DIR": os.path.join(WORK, "target-fe")})
            rp = subprocess.run(fuzz_replay_cmd(target, path), stdout=subprocess.PIPE, stderr=subprocess.STDOUT, text=True, env=env())
            sys.stderr.write(rp.stdout[-3000:])
            if rp.returncode == 1:
                print("VIOLATION property=%s replay=%s" % (prop, replay))
                return 1
            if rp.returncode != 0:
                raise Inconclusive("fuzz replay exited with %d" % rp.returncode)
            print("OK replay passes: %s" % rp.stdout.strip()[-200:])
            return 0
        if prop == "C15":
            if replay:
                rd = json.load(open(replay))
                seed = rd.get("seed", seed)
                tier = rd.get("tier", tier)
            return c15(tier, seed)
        if prop in LIBPROPS:
            if replay:
                rd = json.load(open(replay))
                seed = rd.get("seed", seed)
                tier = rd.get("tier", tier)
            return libprops(prop, tier, seed)
        print("no check registered for", prop)
        return 2
    except Inconclusive as e:
        print("INCONCLUSIVE property=%s: %s" % (prop, e))
        return 2
