#!/bin/sh
# Run once after a fresh restore, offline: builds the engine from files on disk only.
set -e
cd "$(dirname "$0")"
export CARGO_NET_OFFLINE=true
python3 - <<'PY'
import sys
sys.path.insert(0, "lib")
import vlib
vlib.render_engine()
vlib.build_engine_bin("vgen")
print("setup: engine built")
PY
