#!/usr/bin/env python3
"""Seeded property-breaking changes (written by sub-agents that saw only the property text).

  seeded.py confirm ID WORKTREE     confirm in the scratch worktree: patch applies, workspace tests pass with it, the
                                    demonstration fails with it and passes without it; then store under seeded/ID/
  seeded.py check ID PROP [TIER]    apply seeded/ID/patch.diff to /repo, run ./check PROP, undo (git checkout -- .)

Nothing here is registered in MANIFEST.json; it is the sensitivity harness for the checks."""
import json, os, re, shutil, subprocess, sys, time

VERIF = os.path.dirname(os.path.dirname(os.path.abspath(__file__)))
REPO = os.environ.get("VERIF_REPO", "/repo")


def sh(cmd, cwd=None, env=None, timeout=None):
    e = dict(os.environ, CARGO_NET_OFFLINE="true")
    if env:
        e.update(env)
    p = subprocess.run(cmd, cwd=cwd, env=e, shell=isinstance(cmd, str), stdout=subprocess.PIPE, stderr=subprocess.STDOUT, text=True, timeout=timeout)
    return p.returncode, p.stdout


def confirm(sid, wt):
    sd = os.path.join(wt, "_seeded")
    patch = os.path.join(sd, "patch.diff")
    assert os.path.exists(patch), patch
    out = {"id": sid, "confirmed_at_repo_commit": sh("git rev-parse HEAD", cwd=wt)[1].strip()}
    # clean tree, then apply
    sh("git checkout -- .", cwd=wt)
    rc, o = sh(["git", "apply", "--check", patch], cwd=wt)
    assert rc == 0, "patch does not apply: " + o
    sh(["git", "apply", patch], cwd=wt)
    tgt = os.path.join(wt, "target")
    rc, o = sh("cargo test --workspace --no-fail-fast --offline 2>&1", cwd=wt, env={"CARGO_TARGET_DIR": tgt}, timeout=3600)
    passed = sum(int(m) for m in re.findall(r"test result: \w+\. (\d+) passed", o))
    failed = sum(int(m) for m in re.findall(r"test result: \w+\. \d+ passed; (\d+) failed", o))
    out["workspace_tests_with_patch"] = dict(exit=rc, passed=passed, failed=failed)
    print("tests with patch: exit", rc, "passed", passed, "failed", failed)
    demo = os.path.join(sd, "demo")
    run = os.path.join(demo, "run.sh")
    denv = {"CARGO_TARGET_DIR": os.path.join(wt, "target-demo")}
    rc1, o1 = sh(["bash", run], cwd=demo, env=denv, timeout=3600)
    print("demo with patch: exit", rc1)
    print(o1[-1500:])
    sh(["git", "apply", "-R", patch], cwd=wt)
    rc0, o0 = sh(["bash", run], cwd=demo, env=denv, timeout=3600)
    print("demo without patch: exit", rc0)
    print(o0[-600:])
    out["demo_with_patch"] = dict(exit=rc1, tail=o1[-1200:])
    out["demo_without_patch"] = dict(exit=rc0, tail=o0[-400:])
    ok = rc == 0 and failed == 0 and passed >= 61 and rc1 != 0 and rc0 == 0
    out["confirmed"] = ok
    dst = os.path.join(VERIF, "seeded", sid)
    if ok:
        if os.path.exists(dst):
            shutil.rmtree(dst)
        os.makedirs(dst)
        shutil.copy(patch, os.path.join(dst, "patch.diff"))
        shutil.copytree(demo, os.path.join(dst, "demo"), ignore=shutil.ignore_patterns("target", "target-*"))
        if os.path.exists(os.path.join(sd, "NOTES.md")):
            shutil.copy(os.path.join(sd, "NOTES.md"), os.path.join(dst, "NOTES.md"))
        meta = dict(id=sid, property=sid.split("-")[0], needs_to_manifest="", confirmation=out, checks={})
        json.dump(meta, open(os.path.join(dst, "meta.json"), "w"), indent=1)
    print("CONFIRMED" if ok else "NOT CONFIRMED", sid)
    return 0 if ok else 1


def check(sid, prop, tier="quick", seed="1", repo=None):
    """repo: a scratch worktree of /repo to apply the patch in (VERIF_REPO points the checks at it); default /repo itself"""
    repo = repo or REPO
    dst = os.path.join(VERIF, "seeded", sid)
    patch = os.path.join(dst, "patch.diff")
    rc, o = sh("git status --porcelain --untracked-files=no", cwd=repo)
    assert o.strip() == "", repo + " is dirty: " + o
    rc, o = sh(["git", "apply", patch], cwd=repo)
    assert rc == 0, o
    t0 = time.time()
    rdir = os.path.join(VERIF, "replays")
    before = set(os.listdir(rdir)) if os.path.isdir(rdir) else set()
    # the evidence file of the property describes the unchanged tree: keep it across the run on the changed one
    ev = os.path.join(VERIF, "evidence", prop + ".json")
    ev_saved = open(ev).read() if os.path.exists(ev) else None
    try:
        rc, o = sh([os.path.join(VERIF, "check"), prop, "--tier", tier], cwd=VERIF, env={"VERIF_SEED": seed, "VERIF_TIER": tier, "VERIF_REPO": repo}, timeout=6 * 3600)
    finally:
        sh("git checkout -- .", cwd=repo)
        if os.path.exists(ev):
            shutil.copy(ev, os.path.join(dst, "evidence-of-the-run-on-the-changed-tree.json"))
        if ev_saved is not None:
            open(ev, "w").write(ev_saved)
        if repo != REPO:
            # point the rendered engine manifests back at /repo
            sh([sys.executable, "-c", "import sys; sys.path.insert(0, 'lib'); import vlib; vlib.render_engine()"], cwd=VERIF)
    viol = [l for l in o.splitlines() if l.startswith("VIOLATION")]
    tail = [l for l in o.splitlines() if l.startswith(("OK", "INCONCLUSIVE", "FAIL"))]
    print("exit", rc, "violations", len(viol), "wall %.0fs" % (time.time() - t0))
    for l in viol[:4] + tail[-2:]:
        print("  ", l[:300])
    # what the first violation says
    detail = ""
    if viol:
        m = re.search(r"replay=(\S+)", viol[0])
        if m and os.path.exists(os.path.join(VERIF, m.group(1))):
            try:
                r = json.load(open(os.path.join(VERIF, m.group(1))))
                detail = json.dumps(r.get("failures", r.get("failure", "")))[:400]
            except Exception:
                pass
    mp = os.path.join(dst, "meta.json")
    meta = json.load(open(mp))
    meta.setdefault("checks", {})["%s/%s/seed%s" % (prop, tier, seed)] = dict(
        ran="git -C %s apply seeded/%s/patch.diff; VERIF_REPO=%s VERIF_SEED=%s ./check %s --tier %s; git -C %s checkout -- ." % (repo, sid, repo, seed, prop, tier, repo),
        exit=rc, violation_lines=len(viol), caught=(rc == 1 and len(viol) > 0), first_failure=detail, last_lines=o.splitlines()[-3:])
    json.dump(meta, open(mp, "w"), indent=1)
    # replays written for a seeded change are not findings of the tree: keep one under seeded/ID, drop the rest
    new = sorted(set(os.listdir(rdir)) - before) if os.path.isdir(rdir) else []
    for i, f in enumerate(new):
        if i == 0:
            shutil.copy(os.path.join(rdir, f), os.path.join(dst, "caught-by-%s.replay.json" % prop))
        os.remove(os.path.join(rdir, f))
    return 0


if __name__ == "__main__":
    if sys.argv[1] == "confirm":
        sys.exit(confirm(sys.argv[2], sys.argv[3]))
    elif sys.argv[1] == "check":
        sys.exit(check(*sys.argv[2:]))
