#!/bin/bash
# usage: tools/sweep.sh "<seeds>" "<tier>" [props...]   -- runs checks over seeds, prints one line per run
seeds="$1"; tier="$2"; shift 2
props="$@"
[ -z "$props" ] && props="C01 C02 C03 C04 C05 C06 C07 C08 C09 C10 C11 C12 C13 C14 C15 C16 C17 C18 C19 C20"
cd "$(dirname "$0")/.."
for s in $seeds; do
  for p in $props; do
    out=$(VERIF_SEED=$s ./check $p --tier $tier 2>/tmp/sweep_err_$$.txt | grep -v "^KNOWN-FINDING" | tail -3 | tr '\n' ' ')
    echo "seed=$s $p: $out"
    if echo "$out" | grep -q "VIOLATION\|INCONCLUSIVE"; then head -c 3000 /tmp/sweep_err_$$.txt; fi
  done
done
