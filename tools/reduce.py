#!/usr/bin/env python3
"""Program reducer for violation replays of the program-level checks (C01-C05, C10-C14, C20 single-program cases).

  tools/reduce.py PROP REPLAY.json [OUT.json]

proptest already shrinks the inputs / histories of a failing case; the generated program is reported as generated.
This tool shrinks the program: it deletes rules, body items and extra head clauses from the saved AST (the same edit in
every member of the group, which must all carry the same program), re-runs `./check PROP --replay` on the candidate and
keeps it when the replay still fails (exit 1). A candidate that no longer prints / compiles (a variable became unbound)
makes the replay inconclusive and is discarded. The result is written next to the input as *.reduced.json."""
import copy, json, os, subprocess, sys

VERIF = os.path.dirname(os.path.dirname(os.path.abspath(__file__)))


def fails(prop, data, tmp):
    with open(tmp, "w") as f:
        json.dump(data, f)
    p = subprocess.run([os.path.join(VERIF, "check"), prop, "--replay", tmp], cwd=VERIF, stdout=subprocess.PIPE, stderr=subprocess.STDOUT, text=True)
    return p.returncode == 1


def size(ast):
    return sum(1 + len(r["body"]) + len(r["heads"]) for r in ast["rules"])


def main():
    prop, src = sys.argv[1], sys.argv[2]
    out = sys.argv[3] if len(sys.argv) > 3 else src.replace(".json", "") + ".reduced.json"
    data = json.load(open(src))
    members = data.get("members") or []
    if not members:
        print("no members in the replay file (not a program-level replay)")
        return 2
    asts = [json.dumps(m["ast"], sort_keys=True) for m in members]
    if len(set(asts)) != 1:
        print("the members of this group carry different programs (variants): not reduced")
        return 2
    tmp = os.path.join(VERIF, "work", "reduce-candidate.json")
    os.makedirs(os.path.dirname(tmp), exist_ok=True)
    if not fails(prop, data, tmp):
        print("the replay does not fail on this tree: nothing to reduce")
        return 2
    cur = data
    trials = kept = 0

    def ast_of(d):
        return d["members"][0]["ast"]

    def with_ast(d, ast):
        d2 = copy.deepcopy(d)
        for m in d2["members"]:
            m["ast"] = copy.deepcopy(ast)
        d2.pop("ref_ast", None)
        return d2

    changed = True
    while changed:
        changed = False
        # rules, last to first
        i = len(ast_of(cur)["rules"]) - 1
        while i >= 0:
            ast = copy.deepcopy(ast_of(cur))
            del ast["rules"][i]
            trials += 1
            cand = with_ast(cur, ast)
            if fails(prop, cand, tmp):
                cur, changed, kept = cand, True, kept + 1
            i -= 1
        # body items and extra heads
        for ri in range(len(ast_of(cur)["rules"])):
            for field in ("body", "heads"):
                j = len(ast_of(cur)["rules"][ri][field]) - 1
                while j >= 0:
                    ast = copy.deepcopy(ast_of(cur))
                    if field == "heads" and len(ast["rules"][ri]["heads"]) <= 1:
                        break
                    del ast["rules"][ri][field][j]
                    trials += 1
                    cand = with_ast(cur, ast)
                    if fails(prop, cand, tmp):
                        cur, changed, kept = cand, True, kept + 1
                    j -= 1
        print("pass done: size %d, %d trials, %d deletions kept" % (size(ast_of(cur)), trials, kept), flush=True)
    cur["reduced_from"] = os.path.basename(src)
    cur["program_text"] = "(reduced; see members[0].ast) " + cur.get("program_text", "")[:0]
    json.dump(cur, open(out, "w"), indent=1)
    print("reduced %s: size %d -> %d (%d trials); written to %s" % (src, size(ast_of(data)), size(ast_of(cur)), trials, out))
    return 0


if __name__ == "__main__":
    sys.exit(main())
