#!/usr/bin/env python3
"""Regenerates MANIFEST.json from the table below (kept in one place so it stays valid)."""
import json, os, subprocess
VERIF = os.path.dirname(os.path.dirname(os.path.abspath(__file__)))
ids = [json.loads(l)["id"] for l in open(os.path.join(VERIF, "properties.jsonl"))]

PROGFUZZ_NOTE = ("Trusted base: rustc, the engine's printer/glue (type-correct by construction; a generated program that does not "
                 "compile makes the check inconclusive, never a violation) and the independent reference evaluator, which is "
                 "self-tested by setup_cmd. Programs are small (<= ~12 rules, arity <= 4, finite domains).")

CHECKS = {
 "C01": dict(engine="progfuzz", level="exploration", design="4/C01",
   technique="property-based differential testing: generated programs x proptest-generated inputs against a reference evaluator",
   text="Generated positive Ascent programs (all recursion shapes, join plans and index shapes of the rule language) are compiled by the real macro and run on proptest-generated input databases; every relation must equal, as a set and as a row multiset, the least model computed by an independent naive evaluator. Exploration is the right level: the property quantifies over programs x inputs and the oracle is exact."),
 "C02": dict(engine="progfuzz", level="exploration", design="4/C02",
   technique="property-based differential testing: every generated program in its parallel forms across rayon pool sizes with seeded schedule perturbation, against the reference evaluator",
   text="Each generated program (relations, lattices, negation, aggregation) is compiled as ascent!, ascent_par!, ascent_par! with inter_rule_parallelism and ascent_run_par!, and the parallel forms are run in pools of 1-16 threads with seeded perturbation at hook points inside the concurrent insert paths; results must equal the reference model (sets, lattice values, row multisets), without panics or hangs. Interleavings are sampled, so this is exploration; the deterministic content (the parallel code path computes the serial result) is decided as strongly as C01.",
   note="Trusted base as for C01, plus: schedules are sampled (perturbation hooks, pool sweep, oversubscription), not enumerated; a hang is reported as inconclusive (exit 2) by the watchdog."),
 "C05": dict(engine="progfuzz", level="exploration", design="4/C05",
   technique="property-based testing of a row-multiset invariant on generated re-derivation-heavy programs, serial and parallel with schedule perturbation",
   text="Programs built so that the same tuple or lattice key is derived many times (duplicate rules, several heads into one relation, projections, inputs that are also derivable, caller duplicates) are run serially and in parallel pools with perturbation between the presence check and the insertion; the dumped rows of every relation must be exactly the caller's rows plus one row per newly derived tuple, one row per lattice key.",
   note="Trusted base as for C01; thread interleavings are sampled, not enumerated."),
 "C06": dict(engine="progfuzz", level="exploration", design="4/C06",
   technique="metamorphic property testing: syntactic permutations / renamings of generated programs must commute with evaluation; each variant also checked against the reference evaluator",
   text="Every generated base program is compiled together with reordered (rules, declarations, head clauses, admissible body permutations), alpha-renamed and input-permuted variants, and, for the uninterpreted fragment, with injectively renamed constants including a change of column type; all variants must produce the base's relations modulo the renaming, and all must equal the reference result.",
   note="Trusted base as for C01; the engine's own transforms are self-checked on every case by evaluating the transformed AST with the reference evaluator."),
 "C07": dict(engine="progfuzz", level="exploration", design="4/C07",
   technique="differential property testing: generated sugared programs vs. the engine's independent core expansion vs. the reference evaluator",
   text="Generated programs that combine the sugared forms in one rule are compiled next to their documented core expansion produced by an independent desugarer; sugared program, core program and reference evaluator (which interprets the sugar natively) must agree on generated inputs.",
   note="Trusted base as for C01; the independent desugarer is itself checked against the reference on every case."),
 "C08": dict(engine="progfuzz", level="exploration", design="4/C08",
   technique="differential property testing through real rustc: generated macro programs vs. their hygienic hand expansion vs. the reference evaluator, with capture-distinguishing inputs counted",
   text="Programs whose macros are abstracted from generated rule bodies and re-invoked at adversarial call sites (shared spellings, same macro twice per rule, nesting, head macros) are compiled by real rustc (span identity matters) next to the engine's hygienic expansion; both must equal the reference on the expansion. Cases count as non-trivial only when the input distinguishes the hygienic from the capturing reading.",
   note="Trusted base as for C01 plus the reference expander (documented reading of MACROS.MD). Recursive macros are covered by C15."),
 "C09": dict(engine="progfuzz", level="exploration", design="4/C09",
   technique="differential property testing of packaging variants (ascent_run, include_source at random cut points, initialised / re-declared relations, attributes, segment-codegen build) against the reference evaluator",
   text="Each generated program is packaged in up to six ways (ascent_run!/ascent_run_par! with captured inputs, ascent_source!/include_source! cut at random positions into serial, parallel and run macros, initialised relations with a decoy earlier declaration, measure_rule_times, generate_run_timeout) and the whole batch is built a second time with the segment-codegen feature; every variant must equal the reference result.",
   note="Trusted base as for C01. Generic struct signatures are not exercised (recorded as a limit in DESIGN.md)."),
 "C10": dict(engine="progfuzz", level="exploration", design="4/C10-C12",
   technique="property-based differential testing of generated programs around a #[ds(eqrel)] relation against the reference evaluator with an explicit equivalence closure (parallel form with schedule perturbation for the binary relation)",
   text="Generated programs fill a binary or ternary eqrel relation non-recursively, recursively, in stages and key by key, and read it with every bound-column subset in and after its stratum; all plain relations derived from it must equal what the reference derives from the explicitly closed relation. The binary form also runs under ascent_par! in several pools.",
   note="Trusted base as for C01 plus the reference closure. Parallel programs exclude reads of the binary relation with both columns bound (open finding KF-9: does not compile)."),
 "C11": dict(engine="progfuzz", level="exploration", design="4/C10-C12",
   technique="property-based differential testing of generated programs around a #[ds(trrel)] relation against the reference evaluator with an explicit transitive closure",
   text="As C10 for the trrel provider: cyclic, acyclic and self-looping graphs, several keys, staged and recursive feeding; readers with every access pattern must see exactly the transitive closure including (x,x) on cycles.",
   note="Trusted base as for C01 plus the reference closure."),
 "C12": dict(engine="progfuzz", level="exploration", design="4/C10-C12",
   technique="property-based differential testing of generated programs around a #[ds(trrel_uf)] relation against the reference evaluator with an explicit reflexive transitive closure",
   text="As C10 for the trrel_uf provider: chains, cycles that collapse classes, several keys, keys that pause and resume, elements first mentioned inside the recursive stratum; recursive and staged feeding; readers with every access pattern (with and without the key in the ternary form) must see exactly the reflexive transitive closure, without panics.",
   note="Trusted base as for C01 plus the reference closure. Three defects found by this check (KF-13, KF-14a, KF-14b) were repaired in the repository; their committed replays run as regression cases in every run."),
 "C15": dict(engine="frontend", level="exploration", design="4/C15",
   technique="mutation-based property testing: one violation operator applied at a random site of generated well-formed programs, checked on the repository's macro pipeline compiled in-process and through real rustc diagnostics",
   text="Thousands of ill-formed variants (16 violation operators x random site x four macros) of generated well-formed programs are fed to the repository's own parse/desugar/HIR/MIR/codegen pipeline compiled as a library: it must return an error, never Ok, never panic, never loop; a seeded sample and every case the front end accepts go through real rustc, where each program must get an error diagnostic of its own and no 'proc macro panicked'. Conversely every well-formed base must be accepted.",
   note="Trusted base: the glue around the pipeline (a copy of ascent_impl), attribution of rustc diagnostics by line range. Compile-time rejections of well-formed programs that are already known (KF-2, KF-4, KF-9) are re-checked on every run and reported as KNOWN-FINDING while they persist; the program of the repaired KF-20 is kept as a control that must compile."),
 "C16": dict(engine="libprops", level="exploration", design="4/C16",
   technique="property-based testing of algebraic laws: exhaustive enumeration of all triples over small carriers of every shipped lattice type, random generation beyond",
   text="The lattice laws, their agreement with PartialOrd and the truthfulness of the 'changed' result of join_mut / meet_mut are checked on all triples of about 40 small carrier instantiations (every shipped Lattice implementation and nested compositions) and on randomly generated values of wider types.",
   note="Trusted base: PartialEq / Debug of the types; the law checker itself (engine/libprops/src/c16.rs)."),
 "C17": dict(engine="libprops", level="exploration", design="4/C17",
   technique="property-based testing of the aggregators against their mathematical definitions on generated multisets and percentiles, including boundary parameters",
   text="Generated multisets (empty, singleton, duplicates, sorted, large) and percentile parameters (end points, rank boundaries) are fed to min, max, sum, count (with and without exact size hints), mean, percentile and not; results must equal definitions computed on a sorted copy and nothing may panic.",
   note="Trusted base: the reference definitions in engine/libprops/src/c17.rs."),
 "C18": dict(engine="libprops", level="exploration", design="4/C18",
   technique="model-based (stateful) property testing of TrRelUnionFind and UnionFind: exhaustive short histories and random long ones against Warshall's closure / a naive partition",
   text="All add histories up to a length bound over 3 and 4 elements and random histories over 8 elements are applied to TrRelUnionFind and to a Warshall closure; after every operation every public query and both internal consistency checks are compared / run. UnionFind histories (including the unsafe id-level API within its precondition) are compared with a naive partition.",
   note="Trusted base: the reference closure and partition in engine/libprops/src/c18.rs."),
 "C19": dict(engine="libprops", level="exploration", design="4/C19",
   technique="model-based (stateful) property testing of every index type against abstract multimaps through insert / merge / freeze histories, plus concurrent insert rounds with schedule perturbation",
   text="Operation histories (insert through both paths, insert-if-absent, merge with either side larger, freeze cycles, lookups, iteration) are applied to each of the eight index types and to a model triple of multimaps; concurrent rounds check that all racing inserts are retained and that exactly one insert-if-absent racer wins.",
   note="Trusted base: the model in engine/libprops/src/c19.rs; interleavings of the concurrent rounds are sampled."),
 "C13": dict(engine="progfuzz", level="exploration", design="4/C13",
   technique="stateful (model-based) property testing: generated run()/push histories over generated programs against the model 'fresh run on everything pushed so far'",
   text="Operation sequences run() / push(tuple into any plain relation) over generated programs (serial and ascent_par!) are interpreted against the compiled program and against a model (the multiset of all pushed facts); after every run() the relations must equal the reference evaluator's result on the model, and consecutive runs must change nothing. Histories shrink as one proptest value.",
   note="Trusted base as for C01. Monotone re-run is only demanded for programs without negation / aggregation and without rules that copy a lattice value into a plain relation (a copy of an older value legitimately stays behind)."),
 "C14": dict(engine="progfuzz", level="fault_enumeration", design="4/C14",
   technique="fault injection at every deadline-check point (counter hook) of generated programs x generated inputs, with a soundness / resumability oracle from the reference evaluator",
   text="For each generated program compiled with generate_run_timeout and each generated input, the deadline-check counter hook first counts the places at which the deadline can be observed, then every one of them is made the interruption point of a fresh run: run_timeout must return false in a sound partial state (subset of the reference fixed point, lattice values below the final ones) and a resuming run must reach exactly the fixed point without duplicate rows; repeated interruptions are sampled. Enumeration of crash points is exhaustive per case; programs and inputs are sampled.",
   note="Trusted base as for C01, plus the hook: under the verif-hooks feature the start instant of run_timeout is shadowed by a clock whose elapsed() reports 'forever' at the armed check, so the repository's own __check_return_conditions! logic is what runs."),
 "C20": dict(engine="progfuzz", level="exploration", design="4/C20",
   technique="stateful property testing of generated multi-instance / multi-pool scenarios in fresh processes, against the reference evaluator",
   text="Generated scenarios run 2-5 program instances (serial and parallel, same and different generated types) concurrently from a barrier, each constructed, run, pushed to and re-run in independently chosen rayon pools (global, custom sizes, nested), in separate processes that fix the process-wide shard count in pools of 1, 2 and 16 threads; every instance must compute exactly what the reference says it computes alone.",
   note="Trusted base as for C01; interleavings are sampled, not enumerated."),
 "C03": dict(engine="progfuzz", level="exploration", design="4/C03",
   technique="property-based differential testing of generated monotone lattice programs against a reference least-fixed-point evaluator",
   text="Generated monotone lattice programs over every shipped lattice type are compiled and run on generated weighted graphs; each lattice relation must hold exactly one row per derivable key with the reference least-fixed-point value, and relations derived from lattice values must match."),
 "C04": dict(engine="progfuzz", level="exploration", design="4/C04",
   technique="property-based differential testing of generated stratified programs (negation, aggregation) against a reference stratified evaluator",
   text="Stratifiable-by-construction programs with negation and every shipped aggregator (plus two user aggregators) over relations and lattices of lower, usually recursive, strata are compiled and compared with the reference stratified model on generated inputs."),
}

def main():
    checks = []
    for pid in ids:
        if pid not in CHECKS:
            continue
        c = CHECKS[pid]
        checks.append(dict(
            property_id=pid,
            quick_cmd="./check %s --tier quick" % pid,
            thorough_cmd="./check %s --tier thorough" % pid,
            evidence_file="evidence/%s.json" % pid,
            replay_cmd_template="./check %s --replay {path}" % pid,
            engine=c["engine"],
            level_claimed=dict(category=c["level"], text=c["text"], design_ref="DESIGN.md section " + c["design"]),
            level_note=c.get("note", PROGFUZZ_NOTE),
            technique=c["technique"],
        ))
    hooks_commits = subprocess.run(["git", "-C", "/repo", "log", "--format=%h %s"], capture_output=True, text=True).stdout.splitlines()
    hook_ids = [l.split()[0] for l in hooks_commits if "verif hooks" in l]
    m = dict(
        version=1,
        setup_cmd="./setup.sh",
        hooks=dict(guard="cargo feature `verif-hooks` on ascent (enables ascent_macro/verif-hooks); off by default",
                   enable="the engine's glue crate depends on ascent with features = [\"par\", \"verif-hooks\"]; feature unification turns the hooks on for every crate of a check build",
                   baseline_off_cmd="cd /repo && cargo test --workspace --no-fail-fast --offline",
                   source_commits=hook_ids, add_only=True),
        engines=[
            dict(name="frontend", path="engine/frontend + engine/gen/src/illformed.rs", serves_properties=["C15"],
                 kind_free_text="ascent_macro's pipeline compiled in-process via #[path] includes (always the current working tree), plus a cargo check tier with JSON diagnostics"),
            dict(name="libprops", path="engine/libprops", serves_properties=[p for p in ids if CHECKS.get(p, {}).get("engine") == "libprops"],
                 kind_free_text="in-process proptest (fixed seed) and exhaustive enumeration on the library types of ascent_base, ascent::aggregators, ascent::internal and ascent-byods-rels"),
            dict(name="progfuzz", path="engine/{core,gen,glue,runner}", serves_properties=[p for p in ids if CHECKS.get(p, {}).get("engine") == "progfuzz"],
                 kind_free_text="generated Ascent programs compiled in batches by the real macros, run on proptest-generated inputs, compared with an independent reference evaluator; proptest shrinking of inputs; self-contained replay files"),
        ],
        checks=checks,
        notes="Every check: exit 0 held / 1 VIOLATION / 2 inconclusive. VERIF_SEED and VERIF_TIER are honoured; VERIF_REPO points the same machinery at a scratch copy (sensitivity protocol).",
        not_applicable=[dict(property_id=p, reason="check not built yet (work in progress; see DESIGN.md section 4)") for p in ids if p not in CHECKS],
    )
    json.dump(m, open(os.path.join(VERIF, "MANIFEST.json"), "w"), indent=1)

main()
