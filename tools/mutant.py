#!/usr/bin/env python3
"""Sensitivity protocol helper: run a check against a deliberately broken scratch copy of the repository.

usage: mutant.py [--test] FILE 'OLD' 'NEW' -- <check args...>
   or: mutant.py [--test] --patch PATCHFILE -- <check args...>
The copy lives under /var/tmp and is removed (with the build output that refers to it) afterwards.
"""
import os, subprocess, sys, shutil, tempfile

def main():
    a = sys.argv[1:]
    test = False
    if a and a[0] == "--test":
        test = True
        a = a[1:]
    sep = a.index("--")
    spec, chk = a[:sep], a[sep + 1:]
    d = tempfile.mkdtemp(prefix="ascent-mut-", dir="/var/tmp")
    try:
        subprocess.check_call(["rsync", "-a", "--exclude", "target", "--exclude", ".git", "/repo/", d + "/"])
        if spec[0] == "--patch":
            subprocess.check_call(["patch", "-p1", "-s", "-i", os.path.abspath(spec[1])], cwd=d)
        elif spec[0] == "--revert":
            # undo a commit of /repo (e.g. a fix) in the scratch copy
            diff = subprocess.run(["git", "-C", "/repo", "show", spec[1]], capture_output=True, text=True, check=True).stdout
            subprocess.run(["patch", "-p1", "-s", "-R"], cwd=d, input=diff, text=True, check=True)
        else:
            f, old, new = spec
            p = os.path.join(d, f)
            s = open(p).read()
            if s.count(old) != 1:
                print("mutant: pattern occurs %d times in %s" % (s.count(old), f))
                return 3
            open(p, "w").write(s.replace(old, new))
        env = dict(os.environ, VERIF_REPO=d, CARGO_NET_OFFLINE="true")
        if test:
            r = subprocess.run(["cargo", "test", "--workspace", "--no-fail-fast", "--offline", "-q"], cwd=d,
                               env=dict(env, CARGO_TARGET_DIR="/var/tmp/ascent-mut-target"),
                               stdout=subprocess.PIPE, stderr=subprocess.STDOUT, text=True)
            print("mutant: repository tests exit", r.returncode)
            if r.returncode != 0:
                print(r.stdout[-3000:])
        r = subprocess.run([os.path.join(os.path.dirname(os.path.dirname(os.path.abspath(__file__))), "check")] + chk, env=env)
        print("mutant: check exit", r.returncode)
        return r.returncode
    finally:
        shutil.rmtree(d, ignore_errors=True)
        # point the engine's path dependencies back at the real repository
        sys.path.insert(0, os.path.join(os.path.dirname(os.path.dirname(os.path.abspath(__file__))), "lib"))
        os.environ.pop("VERIF_REPO", None)
        import vlib
        vlib.render_engine()

sys.exit(main())
