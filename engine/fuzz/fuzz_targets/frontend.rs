#![no_main]
use libfuzzer_sys::fuzz_target;

fuzz_target!(|data: &[u8]| {
   static QUIET: std::sync::Once = std::sync::Once::new();
   QUIET.call_once(|| std::panic::set_hook(Box::new(|_| {})));
   if let Err(e) = vfrontend::fuzz::entry(data) {
      eprintln!("FAILURE target=frontend {e}");
      std::process::abort();
   }
});
