#![no_main]
use libfuzzer_sys::fuzz_target;

fuzz_target!(|data: &[u8]| {
   // failures are reported by the oracle (as text) and then abort, so that the input is saved as an artifact
   static QUIET: std::sync::Once = std::sync::Once::new();
   QUIET.call_once(|| std::panic::set_hook(Box::new(|_| {})));
   if let Err(e) = libprops::fuzz::entry("agg", data) {
      eprintln!("FAILURE target=agg {e}");
      std::process::abort();
   }
});
