#![no_main]
use libfuzzer_sys::fuzz_target;

fuzz_target!(|data: &[u8]| {
   // failures are reported by the oracle (as text) and then abort, so that the input is saved as an artifact
   static QUIET: std::sync::Once = std::sync::Once::new();
   QUIET.call_once(|| std::panic::set_hook(Box::new(|_| {})));
   if let Err(e) = libprops::fuzz::entry("trrel_uf", data) {
      eprintln!("FAILURE target=trrel_uf {e}");
      std::process::abort();
   }
});
