//! `vfe CASES.json OUT.json`: runs every case {id, kind, text} through the in-process front end with a watchdog.
use std::sync::atomic::{AtomicU64, Ordering};

#[derive(serde::Deserialize)]
struct Case {
   id: String,
   kind: String,
   text: String,
}

static PROGRESS: AtomicU64 = AtomicU64::new(0);

fn main() {
   let argv: Vec<String> = std::env::args().collect();
   if argv.get(1).map(|s| s.as_str()) == Some("fuzz-stats") {
      // vfrontend fuzz-stats DIR: every file of a corpus through the oracle
      std::panic::set_hook(Box::new(|_| {}));
      let (mut files, mut nt, mut failures) = (0u64, 0u64, vec![]);
      let mut names: Vec<_> = std::fs::read_dir(&argv[2]).expect("dir").filter_map(|e| e.ok()).map(|e| e.path()).filter(|p| p.is_file()).collect();
      names.sort();
      for f in names {
         files += 1;
         match vfrontend::fuzz::entry(&std::fs::read(&f).expect("read")) {
            Ok(true) => nt += 1,
            Ok(false) => {},
            Err(e) => failures.push(serde_json::json!({"file": f.to_string_lossy(), "failure": e})),
         }
      }
      println!("{}", serde_json::json!({"files": files, "nontrivial": nt, "failures": failures}));
      return;
   }
   if argv.get(1).map(|s| s.as_str()) == Some("fuzz-replay") {
      // vfrontend fuzz-replay FILE: replays a saved fuzz input outside the fuzzer; exit 1 on failure
      std::panic::set_hook(Box::new(|_| {}));
      let data = std::fs::read(&argv[2]).expect("input file");
      match vfrontend::fuzz::entry(&data) {
         Ok(nt) => println!("fuzz-replay target=frontend ok nontrivial={nt}"),
         Err(e) => {
            println!("FAILURE {e}");
            std::process::exit(1);
         },
      }
      return;
   }
   let cases: Vec<Case> = serde_json::from_str(&std::fs::read_to_string(&argv[1]).expect("cases file")).expect("cases json");
   std::panic::set_hook(Box::new(|_| {}));
   // non-termination watchdog (a self-referential macro must be rejected, not expanded forever)
   std::thread::spawn(|| {
      let mut last = 0;
      let mut idle = 0;
      loop {
         std::thread::sleep(std::time::Duration::from_secs(1));
         let now = PROGRESS.load(Ordering::Relaxed);
         if now == last {
            idle += 1;
            if idle > 60 {
               println!("INCONCLUSIVE watchdog: front end did not return within 60 s on case {now}");
               std::process::exit(3);
            }
         } else {
            last = now;
            idle = 0;
         }
      }
   });
   let mut out = vec![];
   for c in &cases {
      // (if the pipeline overflows the stack or never returns, the harness finds the case here)
      std::fs::write(format!("{}.current", argv[2]), &c.id).ok();
      let o = vfrontend::run_pipeline(&c.kind, &c.text);
      PROGRESS.fetch_add(1, Ordering::Relaxed);
      out.push(serde_json::json!({"id": c.id, "outcome": o}));
   }
   std::fs::write(&argv[2], serde_json::to_string(&out).unwrap()).expect("write out");
}
