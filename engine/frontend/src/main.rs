//! `vfe CASES.json OUT.json`: runs every case {id, kind, text} through the in-process front end with a watchdog.
use std::sync::atomic::{AtomicU64, Ordering};

#[derive(serde::Deserialize)]
struct Case {
   id: String,
   kind: String,
   text: String,
}

static PROGRESS: AtomicU64 = AtomicU64::new(0);

fn main() {
   let argv: Vec<String> = std::env::args().collect();
   let cases: Vec<Case> = serde_json::from_str(&std::fs::read_to_string(&argv[1]).expect("cases file")).expect("cases json");
   std::panic::set_hook(Box::new(|_| {}));
   // non-termination watchdog (a self-referential macro must be rejected, not expanded forever)
   std::thread::spawn(|| {
      let mut last = 0;
      let mut idle = 0;
      loop {
         std::thread::sleep(std::time::Duration::from_secs(1));
         let now = PROGRESS.load(Ordering::Relaxed);
         if now == last {
            idle += 1;
            if idle > 60 {
               println!("INCONCLUSIVE watchdog: front end did not return within 60 s on case {now}");
               std::process::exit(3);
            }
         } else {
            last = now;
            idle = 0;
         }
      }
   });
   let mut out = vec![];
   for c in &cases {
      let o = vfrontend::run_pipeline(&c.kind, &c.text);
      PROGRESS.fetch_add(1, Ordering::Relaxed);
      out.push(serde_json::json!({"id": c.id, "outcome": o}));
   }
   std::fs::write(&argv[2], serde_json::to_string(&out).unwrap()).expect("write out");
}
