//! Harness-defined user aggregators (the README documents that users can define their own).

use std::collections::BTreeSet;

/// The two largest distinct values of the column: a rule fires once per returned value.
pub fn top2<'a, N: 'a + Ord + Clone>(inp: impl Iterator<Item = (&'a N,)>) -> impl Iterator<Item = N> {
   let set: BTreeSet<&'a N> = inp.map(|t| t.0).collect();
   set.into_iter().rev().take(2).cloned().collect::<Vec<_>>().into_iter()
}

/// Number of input tuples, obtained by iterating (sensitive to the multiplicity of what it is fed).
pub fn collect_len(inp: impl Iterator<Item = ()>) -> impl Iterator<Item = usize> {
   let mut n = 0usize;
   for _ in inp {
      n += 1;
   }
   std::iter::once(n)
}

/// The smallest and the largest value of the column as one tuple (nothing on empty input).
pub fn min_max<'a, N: 'a + Ord + Clone>(inp: impl Iterator<Item = (&'a N,)>) -> impl Iterator<Item = (N, N)> {
   let mut lo: Option<&'a N> = None;
   let mut hi: Option<&'a N> = None;
   for (x,) in inp {
      if lo.map_or(true, |l| x < l) {
         lo = Some(x);
      }
      if hi.map_or(true, |h| x > h) {
         hi = Some(x);
      }
   }
   lo.zip(hi).map(|(l, h)| (l.clone(), h.clone())).into_iter()
}
