//! Typed <-> untyped value conversion used by the generated glue.

use std::collections::BTreeSet;

use ascent::lattice::bounded_set::BoundedSet;
use ascent::lattice::constant_propagation::ConstPropagation;
use ascent::lattice::set::Set;
use ascent::lattice::Product;
use ascent::{Dual, Lattice};
use vcore::val::Val;

pub trait ValConv: Sized {
   fn from_val(v: &Val) -> Self;
   fn to_val(&self) -> Val;
}

pub fn cv<T: ValConv>(v: &Val) -> T { T::from_val(v) }
pub fn vc<T: ValConv>(t: &T) -> Val { t.to_val() }

macro_rules! int_conv {
   ($($t:ty),*) => {$(
      impl ValConv for $t {
         fn from_val(v: &Val) -> Self { v.int() as $t }
         fn to_val(&self) -> Val { Val::I(*self as i64) }
      }
   )*};
}
int_conv!(i32, u32, u8, usize, i64);

impl ValConv for bool {
   fn from_val(v: &Val) -> Self { v.boolean() }
   fn to_val(&self) -> Val { Val::B(*self) }
}

impl ValConv for f64 {
   fn from_val(v: &Val) -> Self { v.f() }
   fn to_val(&self) -> Val { Val::F(self.to_bits()) }
}

impl ValConv for String {
   fn from_val(v: &Val) -> Self {
      match v {
         Val::S(s) => s.clone(),
         o => panic!("expected string, got {o:?}"),
      }
   }
   fn to_val(&self) -> Val { Val::S(self.clone()) }
}

impl<T: ValConv> ValConv for Option<T> {
   fn from_val(v: &Val) -> Self {
      match v {
         Val::None_ => None,
         Val::Some_(x) => Some(T::from_val(x)),
         o => panic!("expected option, got {o:?}"),
      }
   }
   fn to_val(&self) -> Val {
      match self {
         None => Val::None_,
         Some(x) => Val::some(x.to_val()),
      }
   }
}

impl<A: ValConv, B: ValConv> ValConv for (A, B) {
   fn from_val(v: &Val) -> Self {
      match v {
         Val::Tup(vs) if vs.len() == 2 => (A::from_val(&vs[0]), B::from_val(&vs[1])),
         o => panic!("expected pair, got {o:?}"),
      }
   }
   fn to_val(&self) -> Val { Val::Tup(vec![self.0.to_val(), self.1.to_val()]) }
}

impl<T: ValConv> ValConv for Dual<T> {
   fn from_val(v: &Val) -> Self {
      match v {
         Val::Dual(x) => Dual(T::from_val(x)),
         o => panic!("expected dual, got {o:?}"),
      }
   }
   fn to_val(&self) -> Val { Val::dual(self.0.to_val()) }
}

impl ValConv for Set<u8> {
   fn from_val(v: &Val) -> Self {
      match v {
         Val::Set(s) => Set(s.iter().map(u8::from_val).collect::<BTreeSet<u8>>()),
         o => panic!("expected set, got {o:?}"),
      }
   }
   fn to_val(&self) -> Val { Val::Set(self.0.iter().map(|x| x.to_val()).collect()) }
}

impl ValConv for BoundedSet<3, u8> {
   fn from_val(v: &Val) -> Self {
      match v {
         Val::BTop => BoundedSet::TOP,
         Val::Set(_) => BoundedSet::from_set(Set::<u8>::from_val(v)),
         o => panic!("expected bounded set, got {o:?}"),
      }
   }
   fn to_val(&self) -> Val {
      if self.is_top() {
         Val::BTop
      } else {
         // BoundedSet exposes no iterator: probe membership over the u8 carrier
         Val::Set((0u8..=255).filter(|x| self.contains(x)).map(|x| x.to_val()).collect())
      }
   }
}

impl ValConv for ConstPropagation<u8> {
   fn from_val(v: &Val) -> Self {
      match v {
         Val::CBot => ConstPropagation::Bottom,
         Val::CTop => ConstPropagation::Top,
         Val::CConst(x) => ConstPropagation::Constant(u8::from_val(x)),
         o => panic!("expected const-prop, got {o:?}"),
      }
   }
   fn to_val(&self) -> Val {
      match self {
         ConstPropagation::Bottom => Val::CBot,
         ConstPropagation::Top => Val::CTop,
         ConstPropagation::Constant(x) => Val::CConst(Box::new(x.to_val())),
      }
   }
}

/// `Product<(u32, Dual<u32>)>` derives no `Hash`, which lattice columns need; a user-style newtype adds it
/// and delegates the order and the lattice operations to the shipped `Product`.
#[derive(Clone, Copy, PartialEq, Eq, Debug)]
pub struct HProd(pub Product<(u32, Dual<u32>)>);

impl HProd {
   pub fn new(a: u32, b: u32) -> Self { HProd(Product((a, Dual(b)))) }
}

impl std::hash::Hash for HProd {
   fn hash<H: std::hash::Hasher>(&self, state: &mut H) {
      (self.0).0.0.hash(state);
      (self.0).0.1.0.hash(state);
   }
}

impl PartialOrd for HProd {
   fn partial_cmp(&self, other: &Self) -> Option<std::cmp::Ordering> { self.0.partial_cmp(&other.0) }
}

impl Lattice for HProd {
   fn meet_mut(&mut self, other: Self) -> bool { self.0.meet_mut(other.0) }
   fn join_mut(&mut self, other: Self) -> bool { self.0.join_mut(other.0) }
}

impl ValConv for HProd {
   fn from_val(v: &Val) -> Self {
      match v {
         Val::Prod(a, b) => HProd::new(a.int() as u32, b.int() as u32),
         o => panic!("expected product, got {o:?}"),
      }
   }
   fn to_val(&self) -> Val { Val::Prod(Box::new(Val::I((self.0).0.0 as i64)), Box::new(Val::I((self.0).0.1.0 as i64))) }
}
