//! Generator of programs with in-program macros (C08): macros are abstracted from generated rule bodies, then invoked
//! again at adversarial call sites (same macro twice in one rule, call-site variables spelled like macro-local ones,
//! nested invocations, head macros).

use std::collections::{BTreeMap, BTreeSet};

use crate::ast::*;
use crate::gen::{gen_core, GenCfg, RuleCtx};
use crate::print::{bind_items, VarEnv};
use crate::rng::Src;
use crate::xform::{item_roles, Roles};

const MAC_NAMES: &[&str] = &["mq", "pick", "hop2", "both", "edgeish", "wrap"];

fn rename_in_items(items: &[BodyItem], map: &BTreeMap<String, String>) -> Vec<BodyItem> {
   // reuse the rule renamer on a fake rule
   let fake = Rule { heads: vec![], body: items.to_vec() };
   crate::xform::rename_rule(&fake, map, &BTreeMap::new()).body
}

fn roles_of(items: &[BodyItem]) -> Roles {
   let mut all = Roles::default();
   for it in items {
      let r = item_roles(it);
      for x in r.needs {
         if !all.hard.contains(&x) && !all.soft.contains(&x) {
            all.needs.insert(x);
         }
      }
      all.hard.extend(r.hard);
      all.soft.extend(r.soft);
      if let BodyItem::Agg { bound, .. } = it {
         // aggregated variables are local to the aggregate
         for b in bound {
            all.hard.insert(b.clone());
         }
      }
   }
   all
}

pub fn gen_macros<R: Src>(r: &mut R, cfg: &GenCfg) -> Program {
   let mut cfg = cfg.clone();
   cfg.small_names = true;
   cfg.allow_for = false;
   let mut prog = gen_core(r, &cfg);
   let mut defs: Vec<MacroDef> = vec![];
   // ---- abstract macros from existing rule bodies
   let mut rule_idx: Vec<usize> = (0..prog.rules.len()).filter(|&i| prog.rules[i].body.len() >= 2).collect();
   r.shuffle(&mut rule_idx);
   for &ri in rule_idx.iter().take(3) {
      if defs.len() >= MAC_NAMES.len() - 1 {
         break;
      }
      let rule = prog.rules[ri].clone();
      let n = rule.body.len();
      let seg_len = if n >= 3 && r.chance(50) { 2 } else { 1 };
      let start = r.below(n - seg_len + 1);
      let seg: Vec<BodyItem> = rule.body[start..start + seg_len].to_vec();
      if seg.iter().any(|it| matches!(it, BodyItem::Cond(Cond::If(_)))) && seg_len == 1 {
         continue;
      }
      // types of all variables of the rule
      let mut env = VarEnv::new();
      bind_items(&rule.body, &prog, &mut env, false);
      let before = roles_of(&rule.body[..start]);
      let bound_before: BTreeSet<String> = before.hard.union(&before.soft).cloned().collect();
      let seg_roles = roles_of(&seg);
      // variables used after the segment (rest of the body and heads)
      let mut after: BTreeSet<String> = BTreeSet::new();
      let rest_roles = roles_of(&rule.body[start + seg_len..]);
      after.extend(rest_roles.needs.iter().cloned());
      after.extend(rest_roles.soft.iter().cloned());
      for (_, args) in rule.head_clauses() {
         for a in args {
            crate::xform::expr_vars_pub(a, &mut after);
         }
      }
      let mut params: Vec<MacroParam> = vec![];
      let mut map: BTreeMap<String, String> = BTreeMap::new();
      let mut call_args: Vec<MacroArg> = vec![];
      let mentioned: BTreeSet<String> =
         seg_roles.needs.iter().chain(seg_roles.hard.iter()).chain(seg_roles.soft.iter()).cloned().collect();
      let mut ok = true;
      for v in &mentioned {
         let needs = bound_before.contains(v);
         let exported = after.contains(v);
         if !(needs || exported) {
            continue; // macro-local
         }
         let Some(info) = env.get(v) else {
            ok = false;
            break;
         };
         let role = if needs {
            "needs"
         } else if seg_roles.hard.contains(v) {
            "hard"
         } else {
            "soft"
         };
         let pname = format!("p{}", params.len());
         params.push(MacroParam { name: pname.clone(), is_ident: true, ty: info.ty, role: role.into() });
         map.insert(v.clone(), format!("${pname}"));
         call_args.push(MacroArg { is_ident: true, ident: v.clone(), expr: None });
      }
      if !ok {
         continue;
      }
      let mut body = rename_in_items(&seg, &map);
      // one constant / expression argument becomes an expr parameter
      'outer: for it in body.iter_mut() {
         if let BodyItem::Clause { rel, args, .. } = it {
            let decl = prog.rel(rel).clone();
            for (ai, a) in args.iter_mut().enumerate() {
               if let Arg::Expr(e) = a {
                  let mut vs = BTreeSet::new();
                  crate::xform::expr_vars_pub(e, &mut vs);
                  // the expression is moved to the call site: it may only mention call-site variables that are
                  // bound before the call
                  let call_site_expr = vs.iter().all(|x| x.starts_with('$') && {
                     let orig = map.iter().find(|(_, p)| *p == x).map(|(o, _)| o.clone());
                     orig.map_or(false, |o| bound_before.contains(&o))
                  });
                  if call_site_expr && r.chance(70) {
                     let pname = format!("e{}", params.len());
                     // back-substitute parameters by the call-site names
                     let inv: BTreeMap<String, String> = map.iter().map(|(o, p)| (p.clone(), o.clone())).collect();
                     let call_e = crate::xform::rename_rule(
                        &Rule { heads: vec![HeadItem::Clause { rel: String::new(), args: vec![e.clone()] }], body: vec![] },
                        &inv,
                        &BTreeMap::new(),
                     );
                     let HeadItem::Clause { args: ca, .. } = &call_e.heads[0] else { unreachable!() };
                     params.push(MacroParam { name: pname.clone(), is_ident: false, ty: decl.cols[ai], role: "expr".into() });
                     call_args.push(MacroArg { is_ident: false, ident: String::new(), expr: Some(ca[0].clone()) });
                     *a = Arg::Expr(Expr::Var(format!("$${pname}")));
                     break 'outer;
                  }
               }
            }
         }
      }
      let name = MAC_NAMES[defs.len()].to_string();
      defs.push(MacroDef { name: name.clone(), params, body, head: vec![], is_head: false, trailing_comma: false });
      let mut new_body = rule.body[..start].to_vec();
      new_body.push(BodyItem::MacroCall { name, args: call_args });
      new_body.extend_from_slice(&rule.body[start + seg_len..]);
      prog.rules[ri].body = new_body;
   }
   // ---- a nested macro: calls the first macro and adds a clause
   if let Some(inner) = defs.first().cloned() {
      if r.chance(60) && inner.params.iter().all(|p| p.is_ident) {
         let all: Vec<String> = prog.rels.iter().map(|d| d.name.clone()).collect();
         // parameters of the outer macro = parameters of the inner one (passed through); plus a local clause
         let params = inner.params.clone();
         let call = BodyItem::MacroCall {
            name: inner.name.clone(),
            args: params.iter().map(|p| MacroArg { is_ident: true, ident: format!("${}", p.name), expr: None }).collect(),
         };
         let rel = r.pick(&all).clone();
         let decl = prog.rel(&rel).clone();
         // the extra clause joins on a parameter of matching type where possible, other columns are macro-local
         let mut locals = 0;
         let extra_args: Vec<Arg> = decl
            .cols
            .iter()
            .map(|ty| {
               let cands: Vec<&MacroParam> = params.iter().filter(|p| p.ty == *ty && p.role != "hard").collect();
               if !cands.is_empty() && r.chance(60) {
                  Arg::Var(format!("${}", r.pick(&cands).name))
               } else if r.chance(50) {
                  locals += 1;
                  Arg::Var(["x", "y", "z"][locals % 3].to_string())
               } else {
                  Arg::Wild
               }
            })
            .collect();
         // the extra clause comes after the inner call so that "needs" parameters are bound as before and
         // "hard" ones have been bound by the inner macro
         let body = vec![call, BodyItem::Clause { rel, args: extra_args, conds: vec![] }];
         let name = MAC_NAMES[defs.len()].to_string();
         defs.push(MacroDef { name, params, body, head: vec![], is_head: false, trailing_comma: false });
      }
   }
   prog.macros = defs.clone();
   // ---- additional call sites
   let heads: Vec<String> = prog.rules.iter().flat_map(|ru| ru.head_clauses().map(|(h, _)| h.clone()).collect::<Vec<_>>()).collect();
   let all: Vec<String> = prog.rels.iter().map(|d| d.name.clone()).collect();
   if !defs.is_empty() && !heads.is_empty() {
      for _ in 0..r.range(2, 4) {
         let def = r.pick(&defs).clone();
         let snapshot = prog.clone();
         let mut ctx = RuleCtx::new(r, &snapshot, &cfg);
         let mut body = vec![];
         // bind something first
         for _ in 0..r.range(1, 2) {
            let rel = r.pick(&all).clone();
            body.push(ctx.clause(r, &rel, 60));
         }
         let n_calls = if r.chance(45) { 2 } else { 1 };
         let mut feasible = true;
         for _ in 0..n_calls {
            // arguments that must be bound before the call are chosen first, from what is bound so far
            let mut chosen: Vec<Option<MacroArg>> = vec![None; def.params.len()];
            for (pi, p) in def.params.iter().enumerate() {
               if !p.is_ident {
                  chosen[pi] = Some(MacroArg { is_ident: false, ident: String::new(), expr: Some(ctx.expr_of(r, p.ty, true, 1)) });
               } else if p.role == "needs" {
                  let vars = ctx.vars_of(p.ty);
                  if vars.is_empty() {
                     feasible = false;
                  } else {
                     chosen[pi] = Some(MacroArg { is_ident: true, ident: r.pick(&vars).clone(), expr: None });
                  }
               }
            }
            if !feasible {
               break;
            }
            let avail = ctx.env.clone();
            for (pi, p) in def.params.iter().enumerate() {
               if chosen[pi].is_some() {
                  continue;
               }
               let vars: Vec<String> = avail.iter().filter(|(_, t)| *t == p.ty).map(|(n, _)| n.clone()).collect();
               if p.role != "hard" && !vars.is_empty() && r.chance(50) {
                  chosen[pi] = Some(MacroArg { is_ident: true, ident: r.pick(&vars).clone(), expr: None });
               } else {
                  let v = ctx.names.fresh();
                  ctx.bind(&v, p.ty);
                  chosen[pi] = Some(MacroArg { is_ident: true, ident: v, expr: None });
               }
            }
            let args: Vec<MacroArg> = chosen.into_iter().map(|c| c.unwrap()).collect();
            if !feasible {
               break;
            }
            body.push(BodyItem::MacroCall { name: def.name.clone(), args });
         }
         if !feasible {
            continue;
         }
         if r.chance(30) {
            if let Some(c) = ctx.bool_expr(r) {
               body.push(BodyItem::Cond(Cond::If(c)));
            }
         }
         let h = r.pick(&heads).clone();
         let hargs = ctx.head_args(r, &h);
         drop(ctx);
         prog.rules.push(Rule { heads: vec![HeadItem::Clause { rel: h, args: hargs }], body });
      }
   }
   // ---- hygiene stress: a two-hop macro with a macro-local join variable, invoked (a) twice in one conjunction, (b) inside a
   // disjunction and again after it, (c) after a disjunction that holds the first call, (d) beside a call-site variable
   // spelled like the local, (e) from a wrapper macro that has a local of the same spelling
   if !heads.is_empty() && r.chance(75) {
      let mut shapes: Vec<(String, usize, usize, String, usize, usize)> = vec![];
      for a in &prog.rels {
         for b in &prog.rels {
            for ir in 0..a.cols.len() {
               for jr in 0..a.cols.len() {
                  for ks in 0..b.cols.len() {
                     for ls in 0..b.cols.len() {
                        if ir != jr && ks != ls && a.cols[jr] == b.cols[ks] {
                           shapes.push((a.name.clone(), ir, jr, b.name.clone(), ks, ls));
                        }
                     }
                  }
               }
            }
         }
      }
      if !shapes.is_empty() {
         let (ra, ir, jr, rb, ks, ls) = r.pick(&shapes).clone();
         let (da, db) = (prog.rel(&ra).clone(), prog.rel(&rb).clone());
         let (ta, tb) = (da.cols[ir], db.cols[ls]);
         let local = r.pick(&["x", "y", "z", "w", "v", "m"]).to_string();
         // the wrapper's own local: the same spelling, or the spelling the renamer could give a second copy of `local`
         // (`x` / `x1`: fresh names must not collide across differently spelled locals either)
         let wlocal = match r.below(3) {
            0 => local.clone(),
            1 => format!("{local}1"),
            _ => format!("{local}2"),
         };
         let mk = |d: &RelDecl, pos_param: usize, pname: &str, pos_local: usize| -> BodyItem {
            BodyItem::Clause {
               rel: d.name.clone(),
               args: (0..d.cols.len())
                  .map(|i| if i == pos_param { Arg::Var(format!("${pname}")) } else if i == pos_local { Arg::Var(local.clone()) } else { Arg::Wild })
                  .collect(),
               conds: vec![],
            }
         };
         let hop = MacroDef {
            name: "hopm".into(),
            params: vec![
               MacroParam { name: "p0".into(), is_ident: true, ty: ta, role: "soft".into() },
               MacroParam { name: "p1".into(), is_ident: true, ty: tb, role: "soft".into() },
            ],
            body: vec![mk(&da, ir, "p0", jr), mk(&db, ls, "p1", ks)],
            head: vec![],
            is_head: false,
            trailing_comma: false,
         };
         prog.macros.push(hop.clone());
         let call = |a: &str, b: &str| BodyItem::MacroCall {
            name: "hopm".into(),
            args: vec![MacroArg { is_ident: true, ident: a.into(), expr: None }, MacroArg { is_ident: true, ident: b.into(), expr: None }],
         };
         // the alternative of a disjunction binds the same two variables without the join
         let alt = |a: &str, b: &str| -> Vec<BodyItem> {
            let one = |d: &RelDecl, pos: usize, v: &str| BodyItem::Clause {
               rel: d.name.clone(),
               args: (0..d.cols.len()).map(|i| if i == pos { Arg::Var(v.into()) } else { Arg::Wild }).collect(),
               conds: vec![],
            };
            vec![one(&da, ir, a), one(&db, ls, b)]
         };
         // wrapper macro with its own local of the same spelling, calling hopm inside a disjunction and again after it
         let wrap_ok = ta == tb;
         // a macro with an empty body (expands to nothing), invoked in front of other items of a macro body and of a disjunct
         let has_nop = r.chance(50);
         let nop = |a: &str| BodyItem::MacroCall { name: "nopm".into(), args: vec![MacroArg { is_ident: true, ident: a.into(), expr: None }] };
         if has_nop {
            prog.macros.push(MacroDef {
               name: "nopm".into(),
               params: vec![MacroParam { name: "p0".into(), is_ident: true, ty: ta, role: "needs".into() }],
               body: vec![],
               head: vec![],
               is_head: false,
               trailing_comma: false,
            });
         }
         if wrap_ok && r.chance(60) {
            let mut wbody = vec![BodyItem::Disj(vec![vec![call("$p0", &wlocal)], alt("$p0", &wlocal)]), call(&wlocal, "$p1")];
            if has_nop {
               // first item of the body, and first item of the first disjunct
               if let BodyItem::Disj(ds) = &mut wbody[0] {
                  ds[1].insert(1, nop("$p0"));
               }
               wbody.insert(1, nop("$p0"));
            }
            prog.macros.push(MacroDef {
               name: "hopw".into(),
               params: hop.params.clone(),
               body: wbody,
               head: vec![],
               is_head: false,
               trailing_comma: false,
            });
         }
         let has_wrap = prog.macros.iter().any(|m| m.name == "hopw");
         // the same two-hop macro with a direct alternative: the local is bound in one disjunct only
         let has_d = r.chance(60);
         if has_d {
            prog.macros.push(MacroDef {
               name: "hopd".into(),
               params: hop.params.clone(),
               body: if r.chance(50) {
                  vec![BodyItem::Disj(vec![alt("$p0", "$p1"), hop.body.clone()])]
               } else {
                  vec![BodyItem::Disj(vec![hop.body.clone(), alt("$p0", "$p1")])]
               },
               head: vec![],
               is_head: false,
               trailing_comma: false,
            });
         }
         // a macro whose body has a block expression with a shadowing `let` that reads the macro-local variable of the same
         // spelling in its own initialiser: `A($p0, v), let $p1 = { let v = v + 1; v + 2 }`
         let lt = da.cols[jr];
         if matches!(lt, Ty::I32 | Ty::U32) && r.chance(60) {
            let blk = Expr::LetBlock(
               local.clone(),
               Box::new(Expr::AddMod(Box::new(Expr::Var(local.clone())), 1, 6)),
               Box::new(Expr::AddMod(Box::new(Expr::Var(local.clone())), 2, 6)),
            );
            prog.macros.push(MacroDef {
               name: "hopb".into(),
               params: vec![
                  MacroParam { name: "p0".into(), is_ident: true, ty: ta, role: "soft".into() },
                  MacroParam { name: "p1".into(), is_ident: true, ty: lt, role: "hard".into() },
               ],
               body: vec![mk(&da, ir, "p0", jr), BodyItem::Cond(Cond::Let(Pat::Var("$p1".into()), blk))],
               head: vec![],
               is_head: false,
               trailing_comma: false,
            });
            for _ in 0..r.range(1, 2) {
               let snapshot = prog.clone();
               let mut ctx = RuleCtx::new(r, &snapshot, &cfg);
               let (a, out) = (ctx.names.fresh(), ctx.names.fresh());
               let mut body = vec![];
               // half of the time a call-site variable spelled like the macro-local one is bound before the call
               if r.chance(50) && a != local && out != local {
                  body.push(BodyItem::Clause {
                     rel: da.name.clone(),
                     args: (0..da.cols.len()).map(|i| if i == jr { Arg::Var(local.clone()) } else { Arg::Wild }).collect(),
                     conds: vec![],
                  });
                  ctx.bind(&local, lt);
               }
               body.push(BodyItem::MacroCall {
                  name: "hopb".into(),
                  args: vec![MacroArg { is_ident: true, ident: a.clone(), expr: None }, MacroArg { is_ident: true, ident: out.clone(), expr: None }],
               });
               ctx.bind(&a, ta);
               ctx.bind(&out, lt);
               let h = r.pick(&heads).clone();
               let hargs = ctx.head_args(r, &h);
               drop(ctx);
               prog.rules.push(Rule { heads: vec![HeadItem::Clause { rel: h, args: hargs }], body });
            }
         }
         for _ in 0..r.range(2, 4) {
            let nm = if has_d && r.chance(45) { "hopd" } else { "hopm" };
            let call = |a: &str, b: &str| BodyItem::MacroCall {
               name: nm.into(),
               args: vec![MacroArg { is_ident: true, ident: a.into(), expr: None }, MacroArg { is_ident: true, ident: b.into(), expr: None }],
            };
            let snapshot = prog.clone();
            let mut ctx = RuleCtx::new(r, &snapshot, &cfg);
            let mut body = vec![];
            let (a, b, c, d) = (ctx.names.fresh(), ctx.names.fresh(), ctx.names.fresh(), ctx.names.fresh());
            let chain = ta == tb;
            // second call continues from b when the types allow it, else it is independent
            let (c2a, c2b) = if chain { (b.clone(), c.clone()) } else { (c.clone(), d.clone()) };
            let shape = r.below(if has_wrap { 6 } else { 5 });
            match shape {
               0 => {
                  body.push(call(&a, &b));
                  body.push(call(&c2a, &c2b));
               },
               1 => {
                  body.push(BodyItem::Disj(vec![vec![call(&a, &b)], alt(&a, &b)]));
                  body.push(call(&c2a, &c2b));
               },
               2 => {
                  body.push(call(&a, &b));
                  body.push(BodyItem::Disj(vec![alt(&c2a, &c2b), vec![call(&c2a, &c2b)]]));
               },
               3 => {
                  // a call-site variable spelled like the macro-local one, bound before the call
                  let pre = BodyItem::Clause {
                     rel: db.name.clone(),
                     args: (0..db.cols.len()).map(|i| if i == ks { Arg::Var(local.clone()) } else if i == ls { Arg::Var(a.clone()) } else { Arg::Wild }).collect(),
                     conds: vec![],
                  };
                  if a != local && b != local && db.cols[ls] == ta {
                     body.push(pre);
                     ctx.bind(&local, db.cols[ks]);
                  }
                  body.push(call(&a, &b));
               },
               4 => {
                  body.push(BodyItem::Disj(vec![vec![call(&a, &b)], vec![call(&a, &b), call(&c2a, &c2b)].into_iter().take(1).chain(alt(&c2a, &c2b)).collect()]));
                  body.push(call(&c2a, &c2b));
               },
               _ => {
                  body.push(BodyItem::MacroCall {
                     name: "hopw".into(),
                     args: vec![MacroArg { is_ident: true, ident: a.clone(), expr: None }, MacroArg { is_ident: true, ident: b.clone(), expr: None }],
                  });
                  body.push(call(&c2a, &c2b));
               },
            }
            ctx.bind(&a, ta);
            ctx.bind(&b, tb);
            if shape != 3 {
               ctx.bind(&c2a, ta);
               ctx.bind(&c2b, tb);
            }
            let h = r.pick(&heads).clone();
            let hargs = ctx.head_args(r, &h);
            drop(ctx);
            prog.rules.push(Rule { heads: vec![HeadItem::Clause { rel: h, args: hargs }], body });
         }
      }
   }
   // ---- a head macro
   if r.chance(50) && !heads.is_empty() {
      let h1 = r.pick(&heads).clone();
      let h2 = r.pick(&heads).clone();
      let d1 = prog.rel(&h1).clone();
      // parameter: one expression of the type of h1's first column
      let ty = d1.cols[0];
      let mk_args = |d: &RelDecl, r: &mut R, prog: &Program| -> Vec<Expr> {
         let ctx = RuleCtx::new(r, prog, &cfg);
         d.cols.iter().map(|&t| if t == ty { Expr::Var("$$e0".into()) } else { ctx.const_of(r, t) }).collect()
      };
      let a1 = mk_args(&d1, r, &prog);
      let d2 = prog.rel(&h2).clone();
      let a2 = mk_args(&d2, r, &prog);
      let name = MAC_NAMES[MAC_NAMES.len() - 1].to_string();
      prog.macros.push(MacroDef {
         name: name.clone(),
         params: vec![MacroParam { name: "e0".into(), is_ident: false, ty, role: "expr".into() }],
         body: vec![],
         head: vec![HeadItem::Clause { rel: h1, args: a1 }, HeadItem::Clause { rel: h2, args: a2 }],
         is_head: true,
         trailing_comma: false,
      });
      // use it in 1-2 rules
      for _ in 0..r.range(1, 2) {
         let snapshot = prog.clone();
         let mut ctx = RuleCtx::new(r, &snapshot, &cfg);
         let rel = r.pick(&all).clone();
         let body = vec![ctx.clause(r, &rel, 0)];
         let e = ctx.expr_of(r, ty, true, 1);
         drop(ctx);
         prog.rules.push(Rule {
            heads: vec![HeadItem::MacroCall { name: name.clone(), args: vec![MacroArg { is_ident: false, ident: String::new(), expr: Some(e) }] }],
            body,
         });
      }
   }
   // a comma after the last item of a macro body is legal and must not change what an invocation expands to, wherever
   // the invocation sits (last item of another macro's body, of a disjunct, of a head list)
   for m in prog.macros.iter_mut() {
      m.trailing_comma = r.chance(40) && !(m.body.is_empty() && m.head.is_empty());
   }
   prog
}
