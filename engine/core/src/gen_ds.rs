//! Generator for programs around a BYODS-tagged relation `R` (eqrel / trrel / trrel_uf; binary `R(T,T)` or ternary
//! `R(K,T,T)`): feeders (non-recursive, recursive through other relations, staged by a tick relation that advances
//! inside R's stratum, key-to-key propagation) and readers with every bound-column subset, in and after the stratum.

use crate::ast::*;
use crate::gen::GenCfg;
use crate::rng::Src;

fn v(x: &str) -> Expr { Expr::Var(x.into()) }
fn av(x: &str) -> Arg { Arg::Var(x.into()) }
fn cl(rel: &str, args: Vec<Arg>) -> BodyItem { BodyItem::Clause { rel: rel.into(), args, conds: vec![] } }
fn hd(rel: &str, args: Vec<Expr>) -> HeadItem { HeadItem::Clause { rel: rel.into(), args } }
fn rel(name: &str, cols: Vec<Ty>, input: bool) -> RelDecl {
   RelDecl { name: name.into(), cols, is_lattice: false, ds: None, is_input: input }
}
fn rule(heads: Vec<HeadItem>, body: Vec<BodyItem>) -> Rule { Rule { heads, body } }

const T: Ty = Ty::U32;

pub const N_PATS_BINARY: usize = 11;
pub const N_PATS_TERNARY: usize = 15;

pub fn gen_byods<R: Src>(r: &mut R, cfg: &GenCfg, ds: Ds, ternary: bool) -> Program { gen_byods_profile(r, cfg, ds, ternary, None) }

/// `profile`: every reader of the program uses this one access pattern, and there is no negation / counting / collapse
/// rule (programs whose provider builds exactly the indices of one pattern; the plans enumerate the patterns).
pub fn gen_byods_profile<R: Src>(r: &mut R, _cfg: &GenCfg, ds: Ds, ternary: bool, profile: Option<usize>) -> Program {
   // KF-13..: trrel_uf mishandles facts that arrive inside a looping stratum; with the finding excluded the tagged
   // relation is only filled from inputs (non-recursive stratum) and read afterwards
   let recursive = !(ds == Ds::TrRelUf && _cfg.excluded("KF-13"));
   let k_ty = if r.chance(50) { Ty::U32 } else { Ty::I32 };
   let mut p = Program::default();
   let rcols = if ternary { vec![k_ty, T, T] } else { vec![T, T] };
   p.rels.push(RelDecl { name: "rr".into(), cols: rcols.clone(), is_lattice: false, ds: Some(ds), is_input: false });
   // inputs
   p.rels.push(rel("edge", rcols.clone(), true));
   p.rels.push(rel("nxt", vec![T, T], true));
   p.rels.push(rel("probe", vec![T], true));
   p.rels.push(rel("pairs", vec![T, T], true));
   if ternary {
      p.rels.push(rel("keys", vec![k_ty], true));
      p.rels.push(rel("knext", vec![k_ty, k_ty], true));
   }
   // helpers to build R clauses / heads with an optional key
   let rc = |k: &str, a: Arg, b: Arg| -> BodyItem {
      if ternary { cl("rr", vec![av(k), a, b]) } else { cl("rr", vec![a, b]) }
   };
   let rh = |k: &str, a: Expr, b: Expr| -> HeadItem {
      if ternary { hd("rr", vec![v(k), a, b]) } else { hd("rr", vec![a, b]) }
   };
   let ec = |k: &str, a: &str, b: &str| -> BodyItem {
      if ternary { cl("edge", vec![av(k), av(a), av(b)]) } else { cl("edge", vec![av(a), av(b)]) }
   };
   // ---- feeders
   // sparse form (ternary only): many keys, one or two edges. The feeders are constant edges placed under every key,
   // so the per-key maps are many and the node sets tiny (size estimates of the key-free indices round down to 0)
   let sparse = ternary && r.chance(20);
   if sparse {
      let (c1, c2) = (r.range(0, 3), r.range(0, 3));
      p.rels.push(rel("want", vec![T, T], false));
      p.rules.push(rule(vec![hd("want", vec![Expr::Int(c1, T), Expr::Int(c2, T)])], vec![]));
      if r.chance(40) {
         p.rules.push(rule(vec![hd("want", vec![Expr::Int(c2, T), Expr::Int(c1, T)])], vec![]));
      }
      p.rules.push(rule(vec![rh("k", v("x"), v("y"))], vec![cl("keys", vec![av("k")]), cl("want", vec![av("x"), av("y")])]));
   } else {
      p.rules.push(rule(vec![rh("k", v("x"), v("y"))], vec![ec("k", "x", "y")]));
   }
   // seeds written in the program: a fact and a generator-only rule put tuples into R without reading any relation
   // (their strata have no input to be re-derived from)
   if profile.is_none() && r.chance(30) {
      let (c1, c2) = (r.range(0, 4), r.range(0, 4));
      let kc = Expr::Int(r.range(0, 2), k_ty);
      let h = if ternary { hd("rr", vec![kc.clone(), Expr::Int(c1, T), Expr::Int(c2, T)]) } else { hd("rr", vec![Expr::Int(c1, T), Expr::Int(c2, T)]) };
      p.rules.push(rule(vec![h], vec![]));
      if r.chance(50) {
         let g = BodyItem::For { pat: Pat::Var("g".into()), iter: IterExpr::Range(Expr::Int(0, T), Expr::Int(r.range(2, 4), T)) };
         let succ = Expr::AddMod(Box::new(v("g")), 1, 6);
         let h = if ternary { hd("rr", vec![kc, v("g"), succ]) } else { hd("rr", vec![v("g"), succ]) };
         p.rules.push(rule(vec![h], vec![g]));
      }
   }
   let mut n_feed = 0;
   if sparse {
      n_feed = 1;
   }
   if !sparse && recursive && r.chance(60) {
      // recursive through nxt: R(y, z) <-- R(x, y), nxt(y, z)
      if r.chance(40) {
         p.rules.push(rule(vec![rh("k", v("y"), v("z"))], vec![rc("k", av("y"), av("x")), cl("nxt", vec![av("y"), av("z")])]));
      } else {
         p.rules.push(rule(vec![rh("k", v("y"), v("z"))], vec![rc("k", av("x"), av("y")), cl("nxt", vec![av("y"), av("z")])]));
      }
      n_feed += 1;
   }
   if !sparse && recursive && r.chance(40) {
      // through another relation
      p.rels.push(rel("mid", if ternary { vec![k_ty, T] } else { vec![T] }, false));
      if ternary {
         p.rules.push(rule(vec![hd("mid", vec![v("k"), v("y")])], vec![rc("k", av("x"), av("y"))]));
         p.rules.push(rule(vec![rh("k", v("y"), v("z"))], vec![cl("mid", vec![av("k"), av("y")]), cl("nxt", vec![av("y"), av("z")])]));
      } else {
         p.rules.push(rule(vec![hd("mid", vec![v("y")])], vec![rc("k", av("x"), av("y"))]));
         p.rules.push(rule(vec![rh("k", v("y"), v("z"))], vec![cl("mid", vec![av("y")]), cl("nxt", vec![av("y"), av("z")])]));
      }
      n_feed += 1;
   }
   if !sparse && recursive && (r.chance(55) || n_feed == 0) {
      // staged arrival: tick advances inside R's stratum (it reads R), stage i facts arrive when tick(i) exists
      let mut scols = vec![Ty::I32];
      scols.extend(rcols.iter().cloned());
      p.rels.push(rel("stage", scols, true));
      p.rels.push(rel("tick", vec![Ty::I32], false));
      p.rules.push(rule(vec![hd("tick", vec![Expr::Int(0, Ty::I32)])], vec![]));
      let probe_r = if ternary { cl("rr", vec![Arg::Wild, Arg::Wild, Arg::Wild]) } else { cl("rr", vec![Arg::Wild, Arg::Wild]) };
      p.rules.push(rule(
         vec![hd("tick", vec![Expr::SatAdd(Box::new(v("i")), Box::new(Expr::Int(1, Ty::I32)), 6)])],
         vec![cl("tick", vec![av("i")]), probe_r],
      ));
      let sc = if ternary { cl("stage", vec![av("i"), av("k"), av("x"), av("y")]) } else { cl("stage", vec![av("i"), av("x"), av("y")]) };
      let body = if r.chance(50) { vec![cl("tick", vec![av("i")]), sc] } else { vec![sc, cl("tick", vec![av("i")])] };
      p.rules.push(rule(vec![rh("k", v("x"), v("y"))], body));
   }
   if recursive && !sparse && profile.is_none() && r.chance(25) {
      // collapse: a hub that is already related to something gets related to every element (for the union-find based
      // structures: many classes are absorbed, in arrival order or against it, into the hub's class within one stratum)
      let wild = Arg::Wild;
      p.rules.push(rule(
         vec![rh("k", v("h"), v("y"))],
         vec![cl("probe", vec![av("h")]), rc("k", av("h"), wild.clone()), rc("k", av("y"), wild)],
      ));
   }
   if recursive && ternary && r.chance(50) {
      // facts move from key to key: keys pause and resume
      p.rules.push(rule(vec![rh("k2", v("x"), v("y"))], vec![rc("k", av("x"), av("y")), cl("knext", vec![av("k"), av("k2")])]));
   }
   // ---- readers
   let n_readers = r.range(3, 6);
   let mut oi = 0;
   // narrow profile: all readers of the program use one or two access patterns (the provider then only builds the
   // indices those patterns need), and the negation / counting rules are mostly left out
   let n_pats = if ternary { N_PATS_TERNARY } else { N_PATS_BINARY };
   let narrow: Option<Vec<usize>> = match profile {
      Some(p) => Some(vec![p % n_pats]),
      None => if r.chance(30) { Some((0..r.range(1, 2)).map(|_| r.below(n_pats)).collect()) } else { None },
   };
   for _ in 0..n_readers {
      oi += 1;
      let inside = !sparse && recursive && r.chance(25); // reader that feeds R again (inside the recursive stratum)
      let on = format!("out{oi}");
      let mut pat = match &narrow {
         Some(ps) => *r.pick(ps),
         None => r.below(n_pats),
      };
      if ternary && pat == 12 && !sparse {
         pat = 0;
      }
      if sparse && oi == 1 {
         pat = 12;
      }
      // KF-14 (known finding): the ternary trrel_uf adaptor fills its reverse maps from the inserted tuples only, so
      // reads that do not bind the key miss implied (reflexive / closure) tuples; such reads are not generated for it
      let key_bound_only = ds == Ds::TrRelUf && ternary && _cfg.excluded("KF-14");
      if key_bound_only {
         pat = match pat {
            2 => 4,
            3 => 5,
            6 => 7,
            10 => 4,
            11 => 5,
            12 => 7,
            13 => 5,
            14 => 4,
            p => p,
         };
      }
      // (body before R, R clause args, head columns)
      let (mut body, rargs, hcols): (Vec<BodyItem>, Vec<Arg>, Vec<&str>) = match (ternary, pat) {
         (false, 0) => (vec![], vec![av("x"), av("y")], vec!["x", "y"]),
         (false, 1) => (vec![cl("probe", vec![av("x")])], vec![av("x"), av("y")], vec!["x", "y"]),
         (false, 2) => (vec![cl("probe", vec![av("y")])], vec![av("x"), av("y")], vec!["x", "y"]),
         (false, 3) => (vec![cl("pairs", vec![av("x"), av("y")])], vec![av("x"), av("y")], vec!["x", "y"]),
         (false, 4) => (vec![], vec![av("x"), av("x")], vec!["x", "x"]),
         (false, 5) => (vec![], vec![Arg::Expr(Expr::Int(r.range(0, 3), T)), av("y")], vec!["y", "y"]),
         (false, 6) => (vec![cl("pairs", vec![av("x"), av("w")])], vec![av("x"), Arg::Wild], vec!["x", "w"]),
         // three clauses, both columns bound (the rule gets the emptiness guard over the full index)
         (false, 8) => (vec![cl("probe", vec![av("x")]), cl("nxt", vec![av("x"), av("y")])], vec![av("x"), av("y")], vec!["x", "y"]),
         (false, 9) => (vec![cl("probe", vec![av("y")]), cl("pairs", vec![av("x"), av("y")])], vec![av("x"), av("y")], vec!["x", "y"]),
         // one column bound, a further clause after R (three clauses: the emptiness guard is consulted on that index)
         (false, 10) => (vec![cl("probe", vec![av("y")])], vec![av("x"), av("y")], vec!["x", "y"]),
         (false, _) => (vec![cl("probe", vec![av("x")]), cl("nxt", vec![av("x"), av("y")])], vec![av("y"), av("z")], vec!["x", "z"]),
         (true, 0) => (vec![], vec![av("k"), av("x"), av("y")], vec!["x", "y"]),
         (true, 1) => (vec![cl("keys", vec![av("k")])], vec![av("k"), av("x"), av("y")], vec!["x", "y"]),
         (true, 2) => (vec![cl("probe", vec![av("x")])], vec![av("k"), av("x"), av("y")], vec!["x", "y"]),
         (true, 3) => (vec![cl("probe", vec![av("y")])], vec![av("k"), av("x"), av("y")], vec!["x", "y"]),
         (true, 4) => (vec![cl("keys", vec![av("k")]), cl("probe", vec![av("x")])], vec![av("k"), av("x"), av("y")], vec!["x", "y"]),
         (true, 5) => (vec![cl("keys", vec![av("k")]), cl("probe", vec![av("y")])], vec![av("k"), av("x"), av("y")], vec!["x", "y"]),
         (true, 6) => (vec![cl("pairs", vec![av("x"), av("y")])], vec![av("k"), av("x"), av("y")], vec!["x", "y"]),
         (true, 7) => (vec![cl("keys", vec![av("k")]), cl("pairs", vec![av("x"), av("y")])], vec![av("k"), av("x"), av("y")], vec!["x", "y"]),
         (true, 8) => (vec![], vec![av("k"), av("x"), av("x")], vec!["x", "x"]),
         // three clauses, both value columns bound, key free (the rule gets the emptiness guard over index [1, 2])
         (true, 10) => (vec![cl("probe", vec![av("x")]), cl("nxt", vec![av("x"), av("y")])], vec![av("k"), av("x"), av("y")], vec!["x", "y"]),
         (true, 11) => (vec![cl("probe", vec![av("y")]), cl("pairs", vec![av("x"), av("y")])], vec![av("k"), av("x"), av("y")], vec!["x", "y"]),
         (true, 12) => (vec![cl("want", vec![av("x"), av("y")]), cl("want", vec![av("x"), av("w")])], vec![av("k"), av("x"), av("y")], vec!["x", "y"]),
         (true, 13) => (vec![cl("probe", vec![av("y")])], vec![av("k"), av("x"), av("y")], vec!["x", "y"]),
         (true, 14) => (vec![cl("probe", vec![av("x")])], vec![av("k"), av("x"), av("y")], vec!["x", "y"]),
         (true, _) => (vec![cl("keys", vec![av("k")])], vec![av("k"), Arg::Wild, av("y")], vec!["y", "y"]),
      };
      // R first or after the binding clauses
      let rclause = cl("rr", rargs);
      let trailing = (ternary && (pat == 13 || pat == 14)) || (!ternary && pat == 10);
      if r.chance(25) && !body.is_empty() && pat != 7 && pat != 12 && !trailing {
         body.insert(0, rclause);
      } else {
         body.push(rclause);
      }
      if trailing {
         // the clause after R only filters on a variable R has bound
         body.push(if ternary { cl("keys", vec![av("k")]) } else { cl("probe", vec![av("x")]) });
      }
      if inside {
         // feed R from the reader: R(h0, z) <-- ..., nxt(h1, z)
         let (jn, keep) = if r.chance(30) { (hcols[0], hcols[1]) } else { (hcols[1], hcols[0]) };
         body.push(cl("nxt", vec![av(jn), av("zz")]));
         let h = if ternary { hd("rr", vec![v("k"), v(keep), v("zz")]) } else { hd("rr", vec![v(keep), v("zz")]) };
         p.rules.push(rule(vec![h], body));
      } else {
         let mut cols = vec![T, T];
         let mut hargs = vec![v(hcols[0]), v(hcols[1])];
         if ternary {
            cols.insert(0, k_ty);
            hargs.insert(0, v("k"));
         }
         p.rels.push(rel(&on, cols, false));
         p.rules.push(rule(vec![hd(&on, hargs)], body));
         if recursive && r.chance(60) {
            // pull the reader into R's stratum without changing what is derived: R <-- out_i, never (never is empty).
            // The reader is then evaluated semi-naively against R's delta in every iteration, so its access pattern is
            // exercised on the delta version as well as on total.
            if !p.rels.iter().any(|d| d.name == "never") {
               p.rels.push(rel("never", vec![T], false));
            }
            let back = if ternary {
               rule(vec![hd("rr", vec![v("k"), v("a"), v("b")])], vec![cl(&on, vec![av("k"), av("a"), av("b")]), cl("never", vec![av("a")])])
            } else {
               rule(vec![hd("rr", vec![v("a"), v("b")])], vec![cl(&on, vec![av("a"), av("b")]), cl("never", vec![av("a")])])
            };
            p.rules.push(back);
         }
      }
   }
   // negation and counting in a later stratum
   let key_bound_only = ds == Ds::TrRelUf && ternary && _cfg.excluded("KF-14");
   let extras = profile.is_none() && (narrow.is_none() || r.chance(30));
   if extras && r.chance(60) && !key_bound_only {
      p.rels.push(rel("absent", vec![T, T], false));
      let neg = if ternary {
         BodyItem::Neg { rel: "rr".into(), args: vec![Arg::Wild, av("x"), av("y")] }
      } else {
         BodyItem::Neg { rel: "rr".into(), args: vec![av("x"), av("y")] }
      };
      p.rules.push(rule(vec![hd("absent", vec![v("x"), v("y")])], vec![cl("pairs", vec![av("x"), av("y")]), neg]));
   }
   if extras && r.chance(60) && !key_bound_only {
      p.rels.push(rel("cnt", vec![T, Ty::I32], false));
      let args = if ternary { vec![Arg::Wild, av("x"), Arg::Wild] } else { vec![av("x"), Arg::Wild] };
      p.rules.push(rule(
         vec![hd("cnt", vec![v("x"), Expr::Cast(Box::new(v("n")), Ty::I32)])],
         vec![cl("probe", vec![av("x")]), BodyItem::Agg { pat: Pat::Var("n".into()), agg: Aggregator::Count, bound: vec![], rel: "rr".into(), args }],
      ));
   }
   if extras && r.chance(50) && !key_bound_only {
      // the same census through the last column (reverse index)
      p.rels.push(rel("cntr", vec![T, Ty::I32], false));
      let args = if ternary { vec![Arg::Wild, Arg::Wild, av("x")] } else { vec![Arg::Wild, av("x")] };
      p.rules.push(rule(
         vec![hd("cntr", vec![v("x"), Expr::Cast(Box::new(v("n")), Ty::I32)])],
         vec![cl("probe", vec![av("x")]), BodyItem::Agg { pat: Pat::Var("n".into()), agg: Aggregator::Count, bound: vec![], rel: "rr".into(), args }],
      ));
   }
   r.shuffle(&mut p.rules);
   p
}
