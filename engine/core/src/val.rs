use std::collections::{BTreeMap, BTreeSet};

use serde::{Deserialize, Serialize};

use crate::ast::Ty;

/// Untyped value domain of the reference evaluator.
#[derive(Clone, Debug, PartialEq, Eq, Hash, Serialize, Deserialize)]
pub enum Val {
   I(i64),
   /// f64 stored as bits (only produced by `mean`)
   F(u64),
   B(bool),
   S(String),
   None_,
   Some_(Box<Val>),
   Tup(Vec<Val>),
   Dual(Box<Val>),
   Set(BTreeSet<Val>),
   /// top element of BoundedSet
   BTop,
   CBot,
   CConst(Box<Val>),
   CTop,
   /// HProd(u32, Dual<u32>) stored as its two raw components
   Prod(Box<Val>, Box<Val>),
}

impl Val {
   fn rank(&self) -> u8 {
      match self {
         Val::I(_) => 0,
         Val::F(_) => 1,
         Val::B(_) => 2,
         Val::S(_) => 3,
         Val::None_ => 4,
         Val::Some_(_) => 5,
         Val::Tup(_) => 6,
         Val::Dual(_) => 7,
         Val::Set(_) => 8,
         Val::BTop => 9,
         Val::CBot => 10,
         Val::CConst(_) => 11,
         Val::CTop => 12,
         Val::Prod(..) => 13,
      }
   }
}

/// Total order that agrees with Rust's `Ord` of the corresponding column types where the aggregators rely on it
/// (integers, strings, Option: None < Some, tuples: lexicographic, Dual: reversed).
impl Ord for Val {
   fn cmp(&self, other: &Self) -> std::cmp::Ordering {
      use Val::*;
      match (self, other) {
         (I(a), I(b)) => a.cmp(b),
         (F(a), F(b)) => f64::from_bits(*a).partial_cmp(&f64::from_bits(*b)).unwrap_or(std::cmp::Ordering::Equal),
         (B(a), B(b)) => a.cmp(b),
         (S(a), S(b)) => a.cmp(b),
         (Some_(a), Some_(b)) => a.cmp(b),
         (Tup(a), Tup(b)) => a.cmp(b),
         (Dual(a), Dual(b)) => b.cmp(a),
         (Set(a), Set(b)) => a.cmp(b),
         (CConst(a), CConst(b)) => a.cmp(b),
         (Prod(a0, a1), Prod(b0, b1)) => (a0, a1).cmp(&(b0, b1)),
         (a, b) => a.rank().cmp(&b.rank()),
      }
   }
}

impl PartialOrd for Val {
   fn partial_cmp(&self, other: &Self) -> Option<std::cmp::Ordering> { Some(self.cmp(other)) }
}

impl Val {
   pub fn int(&self) -> i64 {
      match self {
         Val::I(i) => *i,
         other => panic!("expected int, got {other:?}"),
      }
   }
   pub fn boolean(&self) -> bool {
      match self {
         Val::B(b) => *b,
         other => panic!("expected bool, got {other:?}"),
      }
   }
   pub fn f(&self) -> f64 {
      match self {
         Val::F(b) => f64::from_bits(*b),
         other => panic!("expected f64, got {other:?}"),
      }
   }
   pub fn some(v: Val) -> Val { Val::Some_(Box::new(v)) }
   pub fn dual(v: Val) -> Val { Val::Dual(Box::new(v)) }
   pub fn set_of(items: impl IntoIterator<Item = Val>) -> Val { Val::Set(items.into_iter().collect()) }
}

pub const BSET_BOUND: usize = 3;

/// Least upper bound of two values of lattice type `ty` (own implementation, independent of ascent_base).
pub fn join(ty: Ty, a: &Val, b: &Val) -> Val {
   match ty {
      Ty::I32 | Ty::U32 | Ty::U8 | Ty::Usize => Val::I(a.int().max(b.int())),
      Ty::Bool => Val::B(a.boolean() || b.boolean()),
      Ty::DualU32 => match (a, b) {
         (Val::Dual(x), Val::Dual(y)) => Val::dual(Val::I(x.int().min(y.int()))),
         _ => panic!("join Dual: {a:?} {b:?}"),
      },
      Ty::OptU32 | Ty::OptI32 => match (a, b) {
         (Val::None_, x) | (x, Val::None_) => x.clone(),
         (Val::Some_(x), Val::Some_(y)) => Val::some(Val::I(x.int().max(y.int()))),
         _ => panic!("join Option: {a:?} {b:?}"),
      },
      Ty::SetU8 => match (a, b) {
         (Val::Set(x), Val::Set(y)) => Val::Set(x.union(y).cloned().collect()),
         _ => panic!("join Set: {a:?} {b:?}"),
      },
      Ty::BSetU8 => match (a, b) {
         (Val::BTop, _) | (_, Val::BTop) => Val::BTop,
         (Val::Set(x), Val::Set(y)) => {
            let u: BTreeSet<Val> = x.union(y).cloned().collect();
            if u.len() > BSET_BOUND { Val::BTop } else { Val::Set(u) }
         },
         _ => panic!("join BoundedSet: {a:?} {b:?}"),
      },
      Ty::CPropU8 => match (a, b) {
         (Val::CBot, x) | (x, Val::CBot) => x.clone(),
         (Val::CTop, _) | (_, Val::CTop) => Val::CTop,
         (Val::CConst(x), Val::CConst(y)) => if x == y { a.clone() } else { Val::CTop },
         _ => panic!("join ConstPropagation: {a:?} {b:?}"),
      },
      // tuples are ordered lexicographically by the shipped tuple lattice
      Ty::PairU32 | Ty::PairI32 | Ty::PairDualU32 => if a >= b { a.clone() } else { b.clone() },
      Ty::DualSetU8 => match (a, b) {
         (Val::Dual(x), Val::Dual(y)) => match (&**x, &**y) {
            (Val::Set(x), Val::Set(y)) => Val::dual(Val::Set(x.intersection(y).cloned().collect())),
            _ => panic!("join Dual<Set>: {a:?} {b:?}"),
         },
         _ => panic!("join Dual<Set>: {a:?} {b:?}"),
      },
      Ty::ProdU32DualU32 => match (a, b) {
         (Val::Prod(a0, a1), Val::Prod(b0, b1)) =>
            Val::Prod(Box::new(Val::I(a0.int().max(b0.int()))), Box::new(Val::I(a1.int().min(b1.int())))),
         _ => panic!("join Product: {a:?} {b:?}"),
      },
      Ty::Str | Ty::F64 => panic!("{ty:?} is not a lattice type"),
   }
}

/// `a <= b` in the lattice order of `ty`.
pub fn leq(ty: Ty, a: &Val, b: &Val) -> bool { &join(ty, a, b) == b }

pub type Row = Vec<Val>;

/// A database: relation name -> rows. For inputs the row order and duplicates are meaningful
/// (they are what the caller pushes into the relation vector); results are compared as sets / multisets.
#[derive(Clone, Debug, Default, PartialEq, Eq, Serialize, Deserialize)]
pub struct Db {
   pub rels: BTreeMap<String, Vec<Row>>,
}

impl Db {
   pub fn get(&self, rel: &str) -> &[Row] { self.rels.get(rel).map(|v| &v[..]).unwrap_or(&[]) }
   pub fn set_of(&self, rel: &str) -> BTreeSet<Row> { self.get(rel).iter().cloned().collect() }
   pub fn total_rows(&self) -> usize { self.rels.values().map(|v| v.len()).sum() }
}

/// Compact human-readable rendering (used in samples, replay files and reports).
pub fn show(v: &Val) -> String {
   match v {
      Val::I(i) => i.to_string(),
      Val::F(b) => format!("{:?}", f64::from_bits(*b)),
      Val::B(b) => b.to_string(),
      Val::S(s) => format!("{s:?}"),
      Val::None_ => "None".into(),
      Val::Some_(x) => format!("Some({})", show(x)),
      Val::Tup(vs) => format!("({})", vs.iter().map(show).collect::<Vec<_>>().join(", ")),
      Val::Dual(x) => format!("Dual({})", show(x)),
      Val::Set(s) => format!("{{{}}}", s.iter().map(show).collect::<Vec<_>>().join(", ")),
      Val::BTop => "TOP".into(),
      Val::CBot => "Bottom".into(),
      Val::CConst(x) => format!("Constant({})", show(x)),
      Val::CTop => "Top".into(),
      Val::Prod(a, b) => format!("Product({}, Dual({}))", show(a), show(b)),
   }
}
