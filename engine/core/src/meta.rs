use std::collections::BTreeMap;

use serde::{Deserialize, Serialize};

use crate::print::Kind;

/// Per compiled program: how it relates to the other programs of its batch.
#[derive(Clone, Debug, Serialize, Deserialize)]
pub struct Meta {
   /// entries with the same base are semantically equal variants of one program
   pub base: String,
   pub variant: String,
   pub kind: Kind,
   #[serde(default)]
   pub attrs: Vec<String>,
   /// the reference evaluates this entry's AST (exactly one per base)
   #[serde(default)]
   pub is_ref: bool,
   /// self-check: the reference also evaluates this entry's own AST and must agree with the base
   #[serde(default)]
   pub check_ast: bool,
   /// variant relation name -> base relation name (identity when absent)
   #[serde(default)]
   pub rel_map: BTreeMap<String, String>,
   /// free-form labels used for the evidence distribution
   #[serde(default)]
   pub labels: Vec<String>,
   /// the harness feeds this variant the input rows in a different order
   #[serde(default)]
   pub permute_input: bool,
   /// injective renaming of the constants applied to this variant ("big": c -> 1000 c + 7, "str": c -> "k<c>")
   #[serde(default)]
   pub val_map: Option<String>,
   /// set for committed replays of known findings: the group is run on `fixed_input` only
   #[serde(default)]
   pub finding_id: Option<String>,
   #[serde(default)]
   pub fixed_input: Option<crate::val::Db>,
   /// history of a fixed case (JSON of the runner's op list)
   #[serde(default)]
   pub fixed_ops: Option<String>,
}
