//! Program transformations written independently of ascent_macro: the reference macro expander (hygienic),
//! the documented desugarings (C07), and the metamorphic transforms (C06).

use std::collections::BTreeMap;

use crate::ast::*;

/// Marker contained in every identifier the reference expander invents for a macro-local variable.
pub const MACRO_LOCAL_MARK: &str = "Qm";

#[derive(Clone, Debug)]
enum Sub {
   Ident(String),
   Expr(Expr),
}

struct Subst {
   /// "$x" / "$$e" -> replacement
   params: BTreeMap<String, Sub>,
   /// macro-local variable -> fresh name
   locals: BTreeMap<String, String>,
   fresh_tag: String,
}

impl Subst {
   fn name(&mut self, x: &str) -> String {
      if x.starts_with('$') && (self.params.contains_key(x) || !self.locals.contains_key(x)) {
         match self.params.get(x) {
            Some(Sub::Ident(i)) => i.clone(),
            Some(Sub::Expr(Expr::Var(v))) => v.clone(),
            other => panic!("macro parameter {x} used as identifier but bound to {other:?}"),
         }
      } else {
         let tag = &self.fresh_tag;
         self.locals.entry(x.to_string()).or_insert_with(|| format!("{x}{tag}")).clone()
         // (with an empty tag this is the identity for names without an explicit mapping)
      }
   }
   fn rel(&self, r: &str) -> String {
      if r.starts_with('$') {
         match self.params.get(r) {
            Some(Sub::Ident(i)) => i.clone(),
            other => panic!("macro parameter {r} used as relation but bound to {other:?}"),
         }
      } else {
         r.to_string()
      }
   }
   fn expr(&mut self, e: &Expr) -> Expr {
      let b = |s: &mut Self, e: &Expr| Box::new(s.expr(e));
      match e {
         Expr::Var(x) if x.starts_with("$$") && !self.locals.contains_key(x) => match self.params.get(x) {
            Some(Sub::Expr(e)) => e.clone(),
            other => panic!("expr parameter {x} bound to {other:?}"),
         },
         Expr::Var(x) => Expr::Var(self.name(x)),
         Expr::Int(..) | Expr::Str(_) | Expr::Bool(_) | Expr::None_(_) | Expr::CTop | Expr::CBot => e.clone(),
         Expr::AddMod(a, c, d) => Expr::AddMod(b(self, a), *c, *d),
         Expr::SatAdd(a, x, c) => Expr::SatAdd(b(self, a), b(self, x), *c),
         Expr::Min(a, x) => Expr::Min(b(self, a), b(self, x)),
         Expr::Max(a, x) => Expr::Max(b(self, a), b(self, x)),
         Expr::Some_(a) => Expr::Some_(b(self, a)),
         Expr::Tup(es) => Expr::Tup(es.iter().map(|e| self.expr(e)).collect()),
         Expr::Proj(a, i) => Expr::Proj(b(self, a), *i),
         Expr::DualOf(a) => Expr::DualOf(b(self, a)),
         Expr::UnDual(a) => Expr::UnDual(b(self, a)),
         Expr::SetSingle(a) => Expr::SetSingle(b(self, a)),
         Expr::SetUnion(a, x) => Expr::SetUnion(b(self, a), b(self, x)),
         Expr::SetContains(a, x) => Expr::SetContains(b(self, a), b(self, x)),
         Expr::SetLenGe(a, n) => Expr::SetLenGe(b(self, a), *n),
         Expr::BSetSingle(a) => Expr::BSetSingle(b(self, a)),
         Expr::CConst(a) => Expr::CConst(b(self, a)),
         Expr::ProdOf(a, x) => Expr::ProdOf(b(self, a), b(self, x)),
         Expr::ProdFst(a) => Expr::ProdFst(b(self, a)),
         Expr::Cast(a, t) => Expr::Cast(b(self, a), *t),
         Expr::Cmp(op, a, x) => Expr::Cmp(*op, b(self, a), b(self, x)),
         Expr::And(a, x) => Expr::And(b(self, a), b(self, x)),
         Expr::Or(a, x) => Expr::Or(b(self, a), b(self, x)),
         Expr::Not(a) => Expr::Not(b(self, a)),
         // the block-local variable shadows a variable of the same spelling: both are renamed alike
         Expr::LetBlock(x, init, body) => Expr::LetBlock(self.name(x), b(self, init), b(self, body)),
      }
   }
   fn pat(&mut self, p: &Pat) -> Pat {
      match p {
         Pat::Var(x) => Pat::Var(self.name(x)),
         Pat::Wild | Pat::None_ | Pat::Lit(_) => p.clone(),
         Pat::Some_(p) => Pat::Some_(Box::new(self.pat(p))),
         Pat::Tup(ps) => Pat::Tup(ps.iter().map(|p| self.pat(p)).collect()),
         Pat::Dual(p) => Pat::Dual(Box::new(self.pat(p))),
         Pat::CConst(p) => Pat::CConst(Box::new(self.pat(p))),
         Pat::Bind(x, p) => Pat::Bind(self.name(x), Box::new(self.pat(p))),
      }
   }
   fn arg(&mut self, a: &Arg) -> Arg {
      match a {
         Arg::Var(x) => Arg::Var(self.name(x)),
         Arg::Wild => Arg::Wild,
         Arg::Expr(e) => match self.expr(e) {
            // an expression parameter instantiated with a plain variable is an identifier argument
            Expr::Var(v) => Arg::Var(v),
            e => Arg::Expr(e),
         },
         Arg::Pat(p) => Arg::Pat(self.pat(p)),
      }
   }
   fn cond(&mut self, c: &Cond) -> Cond {
      match c {
         Cond::If(e) => Cond::If(self.expr(e)),
         Cond::IfLet(p, e) => {
            let e = self.expr(e);
            Cond::IfLet(self.pat(p), e)
         },
         Cond::Let(p, e) => {
            let e = self.expr(e);
            Cond::Let(self.pat(p), e)
         },
      }
   }
   fn margs(&mut self, args: &[MacroArg]) -> Vec<MacroArg> {
      args
         .iter()
         .map(|a| {
            if a.is_ident {
               MacroArg { is_ident: true, ident: self.name(&a.ident), expr: None }
            } else {
               MacroArg { is_ident: false, ident: String::new(), expr: Some(self.expr(a.expr.as_ref().unwrap())) }
            }
         })
         .collect()
   }
   fn item(&mut self, it: &BodyItem) -> BodyItem {
      match it {
         BodyItem::Clause { rel, args, conds } => BodyItem::Clause {
            rel: self.rel(rel),
            args: args.iter().map(|a| self.arg(a)).collect(),
            conds: conds.iter().map(|c| self.cond(c)).collect(),
         },
         BodyItem::Cond(c) => BodyItem::Cond(self.cond(c)),
         BodyItem::For { pat, iter } => {
            let iter = match iter {
               IterExpr::Range(a, b) => IterExpr::Range(self.expr(a), self.expr(b)),
               IterExpr::Array(es) => IterExpr::Array(es.iter().map(|e| self.expr(e)).collect()),
               IterExpr::VecIter(es) => IterExpr::VecIter(es.iter().map(|e| self.expr(e)).collect()),
            };
            BodyItem::For { pat: self.pat(pat), iter }
         },
         BodyItem::Agg { pat, agg, bound, rel, args } => {
            let args = args.iter().map(|a| self.arg(a)).collect();
            let bound = bound.iter().map(|b| self.name(b)).collect();
            BodyItem::Agg { pat: self.pat(pat), agg: agg.clone(), bound, rel: self.rel(rel), args }
         },
         BodyItem::Neg { rel, args } =>
            BodyItem::Neg { rel: self.rel(rel), args: args.iter().map(|a| self.arg(a)).collect() },
         BodyItem::Disj(ds) => BodyItem::Disj(ds.iter().map(|d| d.iter().map(|i| self.item(i)).collect()).collect()),
         BodyItem::MacroCall { name, args } => BodyItem::MacroCall { name: name.clone(), args: self.margs(args) },
      }
   }
   fn head(&mut self, h: &HeadItem) -> HeadItem {
      match h {
         HeadItem::Clause { rel, args } =>
            HeadItem::Clause { rel: self.rel(rel), args: args.iter().map(|e| self.expr(e)).collect() },
         HeadItem::MacroCall { name, args } => HeadItem::MacroCall { name: name.clone(), args: self.margs(args) },
      }
   }
}

fn subst_for(def: &MacroDef, args: &[MacroArg], counter: &mut usize) -> Subst {
   subst_for_mode(def, args, counter, true)
}

fn subst_for_mode(def: &MacroDef, args: &[MacroArg], counter: &mut usize, hygienic: bool) -> Subst {
   assert_eq!(def.params.len(), args.len(), "macro {} arity", def.name);
   let mut params = BTreeMap::new();
   for (p, a) in def.params.iter().zip(args.iter()) {
      if p.is_ident {
         assert!(a.is_ident);
         params.insert(format!("${}", p.name), Sub::Ident(a.ident.clone()));
      } else {
         let e = if a.is_ident { Expr::Var(a.ident.clone()) } else { a.expr.clone().unwrap() };
         params.insert(format!("$${}", p.name), Sub::Expr(e));
      }
   }
   *counter += 1;
   // non-hygienic mode (used only to tell whether a case can distinguish capture from non-capture): locals keep their names
   Subst { params, locals: BTreeMap::new(), fresh_tag: if hygienic { format!("{MACRO_LOCAL_MARK}{}", *counter) } else { String::new() } }
}

const MAX_MACRO_DEPTH: usize = 50;

fn expand_items_depth(items: &[BodyItem], prog: &Program, counter: &mut usize, depth: usize) -> Vec<BodyItem> {
   assert!(depth < MAX_MACRO_DEPTH, "recursive macro in reference expander");
   let mut out = vec![];
   for it in items {
      match it {
         BodyItem::MacroCall { name, args } => {
            let def = prog.macros.iter().find(|m| &m.name == name).unwrap_or_else(|| panic!("undefined macro {name}"));
            let mut s = subst_for(def, args, counter);
            let body: Vec<BodyItem> = def.body.iter().map(|i| s.item(i)).collect();
            out.extend(expand_items_depth(&body, prog, counter, depth + 1));
         },
         BodyItem::Disj(ds) =>
            out.push(BodyItem::Disj(ds.iter().map(|d| expand_items_depth(d, prog, counter, depth + 1)).collect())),
         other => out.push(other.clone()),
      }
   }
   out
}

pub fn expand_body_item(it: &BodyItem, prog: &Program, counter: &mut usize) -> Vec<BodyItem> {
   expand_items_depth(std::slice::from_ref(it), prog, counter, 0)
}

fn expand_heads_depth(heads: &[HeadItem], prog: &Program, counter: &mut usize, depth: usize) -> Vec<HeadItem> {
   assert!(depth < MAX_MACRO_DEPTH, "recursive macro in reference expander");
   let mut out = vec![];
   for h in heads {
      match h {
         HeadItem::MacroCall { name, args } => {
            let def = prog.macros.iter().find(|m| &m.name == name).unwrap_or_else(|| panic!("undefined macro {name}"));
            let mut s = subst_for(def, args, counter);
            let hs: Vec<HeadItem> = def.head.iter().map(|h| s.head(h)).collect();
            out.extend(expand_heads_depth(&hs, prog, counter, depth + 1));
         },
         other => out.push(other.clone()),
      }
   }
   out
}

/// Hygienic reference expansion: parameters substituted, every identifier introduced by a macro body
/// renamed freshly per invocation. The result has no macro definitions or calls.
pub fn expand_macros(prog: &Program) -> Program {
   let mut counter = 0usize;
   let rules = prog
      .rules
      .iter()
      .map(|r| Rule {
         heads: expand_heads_depth(&r.heads, prog, &mut counter, 0),
         body: expand_items_depth(&r.body, prog, &mut counter, 0),
      })
      .collect();
   Program { rels: prog.rels.clone(), rules, macros: vec![] }
}

// ---------------------------------------------------------------------------------------------------
// C06: reordering and renaming

use crate::rng::Src;
use std::collections::BTreeSet;

pub fn expr_vars_pub(e: &Expr, out: &mut BTreeSet<String>) { expr_vars(e, out) }

fn expr_vars(e: &Expr, out: &mut BTreeSet<String>) {
   match e {
      Expr::Var(x) => {
         out.insert(x.clone());
      },
      Expr::Int(..) | Expr::Str(_) | Expr::Bool(_) | Expr::None_(_) | Expr::CTop | Expr::CBot => {},
      Expr::AddMod(a, _, _)
      | Expr::Some_(a)
      | Expr::Proj(a, _)
      | Expr::DualOf(a)
      | Expr::UnDual(a)
      | Expr::SetSingle(a)
      | Expr::SetLenGe(a, _)
      | Expr::BSetSingle(a)
      | Expr::CConst(a)
      | Expr::ProdFst(a)
      | Expr::Cast(a, _)
      | Expr::Not(a) => expr_vars(a, out),
      Expr::LetBlock(x, init, body) => {
         expr_vars(init, out);
         let mut inner = BTreeSet::new();
         expr_vars(body, &mut inner);
         inner.remove(x);
         out.extend(inner);
      },
      Expr::SatAdd(a, b, _)
      | Expr::Min(a, b)
      | Expr::Max(a, b)
      | Expr::SetUnion(a, b)
      | Expr::SetContains(a, b)
      | Expr::ProdOf(a, b)
      | Expr::Cmp(_, a, b)
      | Expr::And(a, b)
      | Expr::Or(a, b) => {
         expr_vars(a, out);
         expr_vars(b, out);
      },
      Expr::Tup(es) => es.iter().for_each(|e| expr_vars(e, out)),
   }
}

fn pat_vars(p: &Pat, out: &mut BTreeSet<String>) {
   match p {
      Pat::Var(x) => {
         out.insert(x.clone());
      },
      Pat::Wild | Pat::None_ | Pat::Lit(_) => {},
      Pat::Some_(p) | Pat::Dual(p) | Pat::CConst(p) => pat_vars(p, out),
      Pat::Tup(ps) => ps.iter().for_each(|p| pat_vars(p, out)),
      Pat::Bind(x, p) => {
         out.insert(x.clone());
         pat_vars(p, out);
      },
   }
}

/// Variable roles of one body item: `needs` must be bound before the item, `hard` are bound by the item through a
/// binder that may not see an earlier occurrence (pattern, let, if-let, for, aggregate result), `soft` are plain clause
/// variables (bind or join).
#[derive(Default, Debug, Clone)]
pub struct Roles {
   pub needs: BTreeSet<String>,
   pub hard: BTreeSet<String>,
   pub soft: BTreeSet<String>,
}

fn cond_roles(c: &Cond, r: &mut Roles, local: &BTreeSet<String>) {
   let mut add_needs = |e: &Expr, r: &mut Roles| {
      let mut v = BTreeSet::new();
      expr_vars(e, &mut v);
      for x in v {
         if !local.contains(&x) && !r.hard.contains(&x) && !r.soft.contains(&x) {
            r.needs.insert(x);
         }
      }
   };
   match c {
      Cond::If(e) => add_needs(e, r),
      Cond::IfLet(p, e) | Cond::Let(p, e) => {
         add_needs(e, r);
         pat_vars(p, &mut r.hard);
      },
   }
}

pub fn item_roles(it: &BodyItem) -> Roles {
   let mut r = Roles::default();
   match it {
      BodyItem::Clause { args, conds, .. } => {
         for a in args {
            match a {
               Arg::Var(x) => {
                  r.soft.insert(x.clone());
               },
               Arg::Pat(p) => pat_vars(p, &mut r.hard),
               _ => {},
            }
         }
         for a in args {
            if let Arg::Expr(e) = a {
               // an argument expression is evaluated before the clause binds anything: its variables must be bound
               // by earlier items even when the same clause also mentions them as plain arguments
               expr_vars(e, &mut r.needs);
            }
         }
         let empty = BTreeSet::new();
         for c in conds {
            cond_roles(c, &mut r, &empty);
         }
      },
      BodyItem::Cond(c) => cond_roles(c, &mut r, &BTreeSet::new()),
      BodyItem::For { pat, iter } => {
         let es: Vec<&Expr> = match iter {
            IterExpr::Range(a, b) => vec![a, b],
            IterExpr::Array(es) | IterExpr::VecIter(es) => es.iter().collect(),
         };
         for e in es {
            expr_vars(e, &mut r.needs);
         }
         pat_vars(pat, &mut r.hard);
      },
      BodyItem::Agg { pat, bound, args, .. } => {
         for a in args {
            match a {
               Arg::Var(x) if !bound.contains(x) => {
                  r.needs.insert(x.clone());
               },
               Arg::Expr(e) => expr_vars(e, &mut r.needs),
               _ => {},
            }
         }
         pat_vars(pat, &mut r.hard);
      },
      BodyItem::Neg { args, .. } =>
         for a in args {
            match a {
               Arg::Var(x) => {
                  r.needs.insert(x.clone());
               },
               Arg::Expr(e) => expr_vars(e, &mut r.needs),
               _ => {},
            }
         },
      BodyItem::Disj(ds) => {
         // conservative: everything mentioned is "needed or bound here"; resolved by the caller against the
         // original order (variables bound before the item are needs, the others are hard binders)
         for d in ds {
            for i in d {
               let ir = item_roles(i);
               r.soft.extend(ir.needs);
               r.soft.extend(ir.hard);
               r.soft.extend(ir.soft);
            }
         }
      },
      BodyItem::MacroCall { args, .. } =>
         for a in args {
            if a.is_ident {
               r.soft.insert(a.ident.clone());
            } else if let Some(e) = &a.expr {
               expr_vars(e, &mut r.soft);
            }
         },
   }
   r
}

/// A random admissible permutation of the body items (every expression still follows the items binding its
/// variables; binders that cannot see earlier occurrences stay first among the items mentioning their variables).
pub fn permute_body<R: Src>(r: &mut R, body: &[BodyItem]) -> Vec<BodyItem> {
   let n = body.len();
   let mut roles: Vec<Roles> = body.iter().map(item_roles).collect();
   // resolve Disj / MacroCall units against the original order
   let mut bound: BTreeSet<String> = BTreeSet::new();
   for (i, it) in body.iter().enumerate() {
      if matches!(it, BodyItem::Disj(_) | BodyItem::MacroCall { .. }) {
         let all = std::mem::take(&mut roles[i].soft);
         for x in all {
            if bound.contains(&x) { roles[i].needs.insert(x) } else { roles[i].hard.insert(x) };
         }
      }
      bound.extend(roles[i].hard.iter().cloned());
      bound.extend(roles[i].soft.iter().cloned());
   }
   // hard binder of each variable
   let mut binder: BTreeMap<String, usize> = BTreeMap::new();
   for (i, ro) in roles.iter().enumerate() {
      for x in &ro.hard {
         binder.entry(x.clone()).or_insert(i);
      }
   }
   let mut placed: Vec<usize> = vec![];
   let mut placed_set: BTreeSet<usize> = BTreeSet::new();
   let mut bound: BTreeSet<String> = BTreeSet::new();
   while placed.len() < n {
      let ready: Vec<usize> = (0..n)
         .filter(|i| !placed_set.contains(i))
         .filter(|&i| {
            let ro = &roles[i];
            ro.needs.iter().all(|x| bound.contains(x))
               && ro.soft.iter().chain(ro.needs.iter()).all(|x| match binder.get(x) {
                  Some(&b) => b == i || placed_set.contains(&b),
                  None => true,
               })
         })
         .collect();
      if ready.is_empty() {
         // cannot happen (the original order is a witness); fall back to it
         return body.to_vec();
      }
      let pick = *r.pick(&ready);
      placed.push(pick);
      placed_set.insert(pick);
      bound.extend(roles[pick].hard.iter().cloned());
      bound.extend(roles[pick].soft.iter().cloned());
   }
   placed.into_iter().map(|i| body[i].clone()).collect()
}

/// Applies a variable renaming (within one rule) and a relation renaming.
pub fn rename_rule(rule: &Rule, vars: &BTreeMap<String, String>, rels: &BTreeMap<String, String>) -> Rule {
   let mut s = Subst { params: BTreeMap::new(), locals: vars.clone(), fresh_tag: String::new() };
   let ren_rel = |r: &String| rels.get(r).cloned().unwrap_or_else(|| r.clone());
   fn items(s: &mut Subst, its: &[BodyItem], ren_rel: &dyn Fn(&String) -> String) -> Vec<BodyItem> {
      its.iter()
         .map(|it| {
            let it = s.item(it);
            match it {
               BodyItem::Clause { rel, args, conds } => BodyItem::Clause { rel: ren_rel(&rel), args, conds },
               BodyItem::Agg { pat, agg, bound, rel, args } => BodyItem::Agg { pat, agg, bound, rel: ren_rel(&rel), args },
               BodyItem::Neg { rel, args } => BodyItem::Neg { rel: ren_rel(&rel), args },
               BodyItem::Disj(ds) => {
                  // the clauses inside were already variable-renamed by `item`; rename relations recursively
                  fn rr(its: Vec<BodyItem>, ren_rel: &dyn Fn(&String) -> String) -> Vec<BodyItem> {
                     its.into_iter()
                        .map(|it| match it {
                           BodyItem::Clause { rel, args, conds } => BodyItem::Clause { rel: ren_rel(&rel), args, conds },
                           BodyItem::Agg { pat, agg, bound, rel, args } =>
                              BodyItem::Agg { pat, agg, bound, rel: ren_rel(&rel), args },
                           BodyItem::Neg { rel, args } => BodyItem::Neg { rel: ren_rel(&rel), args },
                           BodyItem::Disj(ds) => BodyItem::Disj(ds.into_iter().map(|d| rr(d, ren_rel)).collect()),
                           other => other,
                        })
                        .collect()
                  }
                  BodyItem::Disj(ds.into_iter().map(|d| rr(d, ren_rel)).collect())
               },
               other => other,
            }
         })
         .collect()
   }
   let body = items(&mut s, &rule.body, &ren_rel);
   let heads = rule
      .heads
      .iter()
      .map(|h| match s.head(h) {
         HeadItem::Clause { rel, args } => HeadItem::Clause { rel: ren_rel(&rel), args },
         other => other,
      })
      .collect();
   Rule { heads, body }
}

fn rule_all_vars(rule: &Rule) -> BTreeSet<String> {
   let mut out = BTreeSet::new();
   fn items(its: &[BodyItem], out: &mut BTreeSet<String>) {
      for it in its {
         let ro = item_roles(it);
         out.extend(ro.needs);
         out.extend(ro.hard);
         out.extend(ro.soft);
         if let BodyItem::Agg { bound, .. } = it {
            out.extend(bound.iter().cloned());
         }
      }
   }
   items(&rule.body, &mut out);
   for (_, args) in rule.head_clauses() {
      for a in args {
         expr_vars(a, &mut out);
      }
   }
   out
}

/// identifiers that look generated / internal without having a reserved shape
pub const ODD_NAMES: &[&str] = &[
   "row", "val", "new_row", "matching", "changed", "cl1", "joined", "lattice_key", "existing", "hash", "lock", "scope",
   "index", "indices", "total", "delta", "newv", "arg_pattern", "expr_replaced", "x_1a", "tuple2", "rel_ind2", "this",
   "me", "it", "acc", "agg_args", "aggregated", "start_time", "scc", "iter", "key", "value", "vv", "kk", "xs", "ys",
];

pub const ODD_REL_NAMES: &[&str] = &[
   "rel", "relation_a", "lattice_b", "indices", "total", "delta", "newr", "field", "row", "rows", "self_rel", "input",
   "output", "result", "update", "insert", "index", "mutexes", "common", "ind", "r1", "r2", "r3x", "zz", "data", "table",
   "facts", "derived", "closure", "tmp1x",
];

#[derive(Clone, Debug)]
pub enum Variant06 {
   PermuteRules,
   PermuteDecls,
   PermuteHeads,
   PermuteBodies,
   Rename,
}

/// Returns the transformed program and the map variant relation name -> base relation name.
pub fn variant06<R: Src>(r: &mut R, prog: &Program, kind: &Variant06) -> (Program, BTreeMap<String, String>) {
   let mut p = prog.clone();
   let mut rel_map = BTreeMap::new();
   match kind {
      Variant06::PermuteRules => {
         let before = p.rules.clone();
         for _ in 0..4 {
            r.shuffle(&mut p.rules);
            if p.rules != before {
               break;
            }
         }
      },
      Variant06::PermuteDecls => {
         r.shuffle(&mut p.rels);
         p.rels.reverse();
      },
      Variant06::PermuteHeads =>
         for rule in p.rules.iter_mut() {
            rule.heads.reverse();
         },
      Variant06::PermuteBodies =>
         for rule in p.rules.iter_mut() {
            rule.body = permute_body(r, &rule.body);
         },
      Variant06::Rename => {
         let mut rel_pool: Vec<String> = ODD_REL_NAMES.iter().map(|s| s.to_string()).collect();
         r.shuffle(&mut rel_pool);
         let mut fwd = BTreeMap::new();
         let mut names: Vec<String> = vec![];
         for d in &p.rels {
            if !names.contains(&d.name) {
               names.push(d.name.clone());
            }
         }
         for (i, n) in names.iter().enumerate() {
            let new = if i < rel_pool.len() { rel_pool[i].clone() } else { format!("q{}r", i) };
            fwd.insert(n.clone(), new.clone());
            rel_map.insert(new, n.clone());
         }
         for d in p.rels.iter_mut() {
            d.name = fwd[&d.name].clone();
         }
         p.rules = p
            .rules
            .iter()
            .map(|rule| {
               let mut pool: Vec<String> = ODD_NAMES.iter().map(|s| s.to_string()).collect();
               r.shuffle(&mut pool);
               let vars: BTreeMap<String, String> = rule_all_vars(rule)
                  .into_iter()
                  .enumerate()
                  .map(|(i, v)| (v, if i < pool.len() { pool[i].clone() } else { format!("w{}q", i) }))
                  .collect();
               rename_rule(rule, &vars, &fwd)
            })
            .collect();
         // in-program macros mention relations too; their parameters and local variables keep their names (the
         // call-site variables around them change, so every collision between the two changes as well)
         fn rels_in_items(items: &mut [BodyItem], fwd: &BTreeMap<String, String>) {
            for it in items.iter_mut() {
               match it {
                  BodyItem::Clause { rel, .. } | BodyItem::Agg { rel, .. } | BodyItem::Neg { rel, .. } =>
                     if let Some(n) = fwd.get(rel) {
                        *rel = n.clone();
                     },
                  BodyItem::Disj(ds) => ds.iter_mut().for_each(|d| rels_in_items(d, fwd)),
                  _ => {},
               }
            }
         }
         for m in p.macros.iter_mut() {
            rels_in_items(&mut m.body, &fwd);
            for h in m.head.iter_mut() {
               if let HeadItem::Clause { rel, .. } = h {
                  if let Some(n) = fwd.get(rel) {
                     *rel = n.clone();
                  }
               }
            }
         }
      },
   }
   (p, rel_map)
}

/// Injective renaming of the constants of an uninterpreted program (all columns i32).
/// "big": c -> 1000 c + 7 (same type); "str": c -> "k<c>" with the column type changed to String.
pub fn rename_consts(prog: &Program, scheme: &str) -> Program {
   fn ex(e: &Expr, scheme: &str) -> Expr {
      let b = |e: &Expr| Box::new(ex(e, scheme));
      match e {
         Expr::Int(c, Ty::I32) => match scheme {
            "big" => Expr::Int(c * 1000 + 7, Ty::I32),
            _ => Expr::Str(format!("k{c}")),
         },
         Expr::Cmp(op, a, x) => Expr::Cmp(*op, b(a), b(x)),
         Expr::And(a, x) => Expr::And(b(a), b(x)),
         Expr::Or(a, x) => Expr::Or(b(a), b(x)),
         Expr::Not(a) => Expr::Not(b(a)),
         Expr::Some_(a) => Expr::Some_(b(a)),
         Expr::Tup(es) => Expr::Tup(es.iter().map(|e| ex(e, scheme)).collect()),
         other => other.clone(),
      }
   }
   fn arg(a: &Arg, scheme: &str) -> Arg {
      match a {
         Arg::Expr(e) => Arg::Expr(ex(e, scheme)),
         other => other.clone(),
      }
   }
   fn cond(c: &Cond, scheme: &str) -> Cond {
      match c {
         Cond::If(e) => Cond::If(ex(e, scheme)),
         Cond::IfLet(p, e) => Cond::IfLet(p.clone(), ex(e, scheme)),
         Cond::Let(p, e) => Cond::Let(p.clone(), ex(e, scheme)),
      }
   }
   fn item(it: &BodyItem, scheme: &str) -> BodyItem {
      match it {
         BodyItem::Clause { rel, args, conds } => BodyItem::Clause {
            rel: rel.clone(),
            args: args.iter().map(|a| arg(a, scheme)).collect(),
            conds: conds.iter().map(|c| cond(c, scheme)).collect(),
         },
         BodyItem::Cond(c) => BodyItem::Cond(cond(c, scheme)),
         BodyItem::For { pat, iter } => BodyItem::For {
            pat: pat.clone(),
            iter: match iter {
               IterExpr::Range(a, b) => IterExpr::Range(ex(a, scheme), ex(b, scheme)),
               IterExpr::Array(es) => IterExpr::Array(es.iter().map(|e| ex(e, scheme)).collect()),
               IterExpr::VecIter(es) => IterExpr::VecIter(es.iter().map(|e| ex(e, scheme)).collect()),
            },
         },
         BodyItem::Neg { rel, args } => BodyItem::Neg { rel: rel.clone(), args: args.iter().map(|a| arg(a, scheme)).collect() },
         BodyItem::Disj(ds) => BodyItem::Disj(ds.iter().map(|d| d.iter().map(|i| item(i, scheme)).collect()).collect()),
         other => other.clone(),
      }
   }
   let mut p = prog.clone();
   if scheme == "str" {
      for d in p.rels.iter_mut() {
         for c in d.cols.iter_mut() {
            assert_eq!(*c, Ty::I32, "rename_consts needs an all-i32 program");
            *c = Ty::Str;
         }
      }
   }
   for rule in p.rules.iter_mut() {
      rule.body = rule.body.iter().map(|i| item(i, scheme)).collect();
      rule.heads = rule
         .heads
         .iter()
         .map(|h| match h {
            HeadItem::Clause { rel, args } => HeadItem::Clause { rel: rel.clone(), args: args.iter().map(|e| ex(e, scheme)).collect() },
            other => other.clone(),
         })
         .collect();
   }
   p
}

// ---------------------------------------------------------------------------------------------------
// C07: the documented core expansions, written independently of ascent_macro

fn expand_disj(items: &[BodyItem]) -> Vec<Vec<BodyItem>> {
   // one conjunction per choice of disjuncts (nested disjunctions flattened recursively)
   let mut acc: Vec<Vec<BodyItem>> = vec![vec![]];
   for it in items {
      match it {
         BodyItem::Disj(ds) => {
            let mut alts: Vec<Vec<BodyItem>> = vec![];
            for d in ds {
               alts.extend(expand_disj(d));
            }
            let mut next = vec![];
            for a in &acc {
               for alt in &alts {
                  let mut v = a.clone();
                  v.extend(alt.iter().cloned());
                  next.push(v);
               }
            }
            acc = next;
         },
         other =>
            for a in acc.iter_mut() {
               a.push(other.clone());
            },
      }
   }
   acc
}

/// Rewrites a program into the documented core form:
/// one rule per choice of disjuncts and per head clause; `?pattern` -> fresh variable + `if let`; `_` -> fresh variable;
/// constant / expression argument -> fresh variable + equality test; a variable repeated inside one clause (and, when
/// `split_joins`, also across clauses) -> fresh variable + equality test; `!r(..)` -> `agg () = not() in r(..)`.
pub fn desugar(prog: &Program, split_joins: bool) -> Program {
   let prog = if prog.macros.is_empty() { prog.clone() } else { expand_macros(prog) };
   let mut counter = 0usize;
   let mut fresh = || {
      counter += 1;
      format!("dz{}q", counter)
   };
   let mut rules = vec![];
   for rule in &prog.rules {
      for body in expand_disj(&rule.body) {
         for head in &rule.heads {
            let mut bound: BTreeSet<String> = BTreeSet::new();
            let mut new_body = vec![];
            for it in &body {
               match it {
                  BodyItem::Clause { rel, args, conds } => {
                     let mut new_args = vec![];
                     let mut pre_conds: Vec<Cond> = vec![];
                     let mut eq_conds: Vec<Cond> = vec![];
                     let mut here: BTreeSet<String> = BTreeSet::new();
                     for a in args {
                        match a {
                           Arg::Var(x) => {
                              let repeated_here = here.contains(x);
                              let repeated_before = bound.contains(x);
                              if repeated_here || (repeated_before && split_joins) {
                                 let f = fresh();
                                 eq_conds.push(Cond::If(Expr::Cmp(
                                    CmpOp::Eq,
                                    Box::new(Expr::Var(f.clone())),
                                    Box::new(Expr::Var(x.clone())),
                                 )));
                                 new_args.push(Arg::Var(f));
                              } else {
                                 here.insert(x.clone());
                                 new_args.push(a.clone());
                              }
                           },
                           Arg::Wild => new_args.push(Arg::Var(fresh())),
                           Arg::Expr(e) => {
                              let f = fresh();
                              eq_conds.push(Cond::If(Expr::Cmp(CmpOp::Eq, Box::new(Expr::Var(f.clone())), Box::new(e.clone()))));
                              new_args.push(Arg::Var(f));
                           },
                           Arg::Pat(p) => {
                              let f = fresh();
                              pre_conds.push(Cond::IfLet(p.clone(), Expr::Var(f.clone())));
                              new_args.push(Arg::Var(f));
                           },
                        }
                     }
                     let mut all_conds = pre_conds;
                     all_conds.extend(eq_conds);
                     all_conds.extend(conds.iter().cloned());
                     let item = BodyItem::Clause { rel: rel.clone(), args: new_args, conds: all_conds };
                     let ro = item_roles(&item);
                     bound.extend(ro.hard);
                     bound.extend(ro.soft);
                     new_body.push(item);
                  },
                  BodyItem::Neg { rel, args } => {
                     new_body.push(BodyItem::Agg {
                        pat: Pat::Tup(vec![]),
                        agg: Aggregator::Not,
                        bound: vec![],
                        rel: rel.clone(),
                        args: args.clone(),
                     });
                  },
                  other => {
                     let ro = item_roles(other);
                     bound.extend(ro.hard);
                     bound.extend(ro.soft);
                     new_body.push(other.clone());
                  },
               }
            }
            rules.push(Rule { heads: vec![head.clone()], body: new_body });
         }
      }
   }
   Program { rels: prog.rels.clone(), rules, macros: vec![] }
}

fn expand_items_unhyg(items: &[BodyItem], prog: &Program, counter: &mut usize, depth: usize) -> Vec<BodyItem> {
   assert!(depth < MAX_MACRO_DEPTH);
   let mut out = vec![];
   for it in items {
      match it {
         BodyItem::MacroCall { name, args } => {
            let def = prog.macros.iter().find(|m| &m.name == name).unwrap();
            let mut s = subst_for_mode(def, args, counter, false);
            let body: Vec<BodyItem> = def.body.iter().map(|i| s.item(i)).collect();
            out.extend(expand_items_unhyg(&body, prog, counter, depth + 1));
         },
         BodyItem::Disj(ds) => out.push(BodyItem::Disj(ds.iter().map(|d| expand_items_unhyg(d, prog, counter, depth + 1)).collect())),
         other => out.push(other.clone()),
      }
   }
   out
}

/// The capturing (non-hygienic) reading of the macros: body-local identifiers keep their spelling. Only used to
/// classify cases (does this input distinguish capture from non-capture?), never as an oracle.
pub fn expand_macros_unhygienic(prog: &Program) -> Program {
   let mut counter = 0usize;
   let rules = prog
      .rules
      .iter()
      .map(|r| Rule {
         heads: expand_heads_depth(&r.heads, prog, &mut counter, 0),
         body: expand_items_unhyg(&r.body, prog, &mut counter, 0),
      })
      .collect();
   Program { rels: prog.rels.clone(), rules, macros: vec![] }
}
