//! Program transformations written independently of ascent_macro: the reference macro expander (hygienic),
//! the documented desugarings (C07), and the metamorphic transforms (C06).

use std::collections::BTreeMap;

use crate::ast::*;

/// Marker contained in every identifier the reference expander invents for a macro-local variable.
pub const MACRO_LOCAL_MARK: &str = "Qm";

#[derive(Clone, Debug)]
enum Sub {
   Ident(String),
   Expr(Expr),
}

struct Subst {
   /// "$x" / "$$e" -> replacement
   params: BTreeMap<String, Sub>,
   /// macro-local variable -> fresh name
   locals: BTreeMap<String, String>,
   fresh_tag: String,
}

impl Subst {
   fn name(&mut self, x: &str) -> String {
      if x.starts_with('$') {
         match self.params.get(x) {
            Some(Sub::Ident(i)) => i.clone(),
            Some(Sub::Expr(Expr::Var(v))) => v.clone(),
            other => panic!("macro parameter {x} used as identifier but bound to {other:?}"),
         }
      } else {
         let tag = &self.fresh_tag;
         self.locals.entry(x.to_string()).or_insert_with(|| format!("{x}{tag}")).clone()
      }
   }
   fn rel(&self, r: &str) -> String {
      if r.starts_with('$') {
         match self.params.get(r) {
            Some(Sub::Ident(i)) => i.clone(),
            other => panic!("macro parameter {r} used as relation but bound to {other:?}"),
         }
      } else {
         r.to_string()
      }
   }
   fn expr(&mut self, e: &Expr) -> Expr {
      let b = |s: &mut Self, e: &Expr| Box::new(s.expr(e));
      match e {
         Expr::Var(x) if x.starts_with("$$") => match self.params.get(x) {
            Some(Sub::Expr(e)) => e.clone(),
            other => panic!("expr parameter {x} bound to {other:?}"),
         },
         Expr::Var(x) => Expr::Var(self.name(x)),
         Expr::Int(..) | Expr::Str(_) | Expr::Bool(_) | Expr::None_(_) | Expr::CTop | Expr::CBot => e.clone(),
         Expr::AddMod(a, c, d) => Expr::AddMod(b(self, a), *c, *d),
         Expr::SatAdd(a, x, c) => Expr::SatAdd(b(self, a), b(self, x), *c),
         Expr::Min(a, x) => Expr::Min(b(self, a), b(self, x)),
         Expr::Max(a, x) => Expr::Max(b(self, a), b(self, x)),
         Expr::Some_(a) => Expr::Some_(b(self, a)),
         Expr::Tup(es) => Expr::Tup(es.iter().map(|e| self.expr(e)).collect()),
         Expr::Proj(a, i) => Expr::Proj(b(self, a), *i),
         Expr::DualOf(a) => Expr::DualOf(b(self, a)),
         Expr::UnDual(a) => Expr::UnDual(b(self, a)),
         Expr::SetSingle(a) => Expr::SetSingle(b(self, a)),
         Expr::SetUnion(a, x) => Expr::SetUnion(b(self, a), b(self, x)),
         Expr::SetContains(a, x) => Expr::SetContains(b(self, a), b(self, x)),
         Expr::SetLenGe(a, n) => Expr::SetLenGe(b(self, a), *n),
         Expr::BSetSingle(a) => Expr::BSetSingle(b(self, a)),
         Expr::CConst(a) => Expr::CConst(b(self, a)),
         Expr::ProdOf(a, x) => Expr::ProdOf(b(self, a), b(self, x)),
         Expr::ProdFst(a) => Expr::ProdFst(b(self, a)),
         Expr::Cast(a, t) => Expr::Cast(b(self, a), *t),
         Expr::Cmp(op, a, x) => Expr::Cmp(*op, b(self, a), b(self, x)),
         Expr::And(a, x) => Expr::And(b(self, a), b(self, x)),
         Expr::Or(a, x) => Expr::Or(b(self, a), b(self, x)),
         Expr::Not(a) => Expr::Not(b(self, a)),
      }
   }
   fn pat(&mut self, p: &Pat) -> Pat {
      match p {
         Pat::Var(x) => Pat::Var(self.name(x)),
         Pat::Wild | Pat::None_ | Pat::Lit(_) => p.clone(),
         Pat::Some_(p) => Pat::Some_(Box::new(self.pat(p))),
         Pat::Tup(ps) => Pat::Tup(ps.iter().map(|p| self.pat(p)).collect()),
         Pat::Dual(p) => Pat::Dual(Box::new(self.pat(p))),
         Pat::CConst(p) => Pat::CConst(Box::new(self.pat(p))),
         Pat::Bind(x, p) => Pat::Bind(self.name(x), Box::new(self.pat(p))),
      }
   }
   fn arg(&mut self, a: &Arg) -> Arg {
      match a {
         Arg::Var(x) => Arg::Var(self.name(x)),
         Arg::Wild => Arg::Wild,
         Arg::Expr(e) => match self.expr(e) {
            // an expression parameter instantiated with a plain variable is an identifier argument
            Expr::Var(v) => Arg::Var(v),
            e => Arg::Expr(e),
         },
         Arg::Pat(p) => Arg::Pat(self.pat(p)),
      }
   }
   fn cond(&mut self, c: &Cond) -> Cond {
      match c {
         Cond::If(e) => Cond::If(self.expr(e)),
         Cond::IfLet(p, e) => {
            let e = self.expr(e);
            Cond::IfLet(self.pat(p), e)
         },
         Cond::Let(p, e) => {
            let e = self.expr(e);
            Cond::Let(self.pat(p), e)
         },
      }
   }
   fn margs(&mut self, args: &[MacroArg]) -> Vec<MacroArg> {
      args
         .iter()
         .map(|a| {
            if a.is_ident {
               MacroArg { is_ident: true, ident: self.name(&a.ident), expr: None }
            } else {
               MacroArg { is_ident: false, ident: String::new(), expr: Some(self.expr(a.expr.as_ref().unwrap())) }
            }
         })
         .collect()
   }
   fn item(&mut self, it: &BodyItem) -> BodyItem {
      match it {
         BodyItem::Clause { rel, args, conds } => BodyItem::Clause {
            rel: self.rel(rel),
            args: args.iter().map(|a| self.arg(a)).collect(),
            conds: conds.iter().map(|c| self.cond(c)).collect(),
         },
         BodyItem::Cond(c) => BodyItem::Cond(self.cond(c)),
         BodyItem::For { pat, iter } => {
            let iter = match iter {
               IterExpr::Range(a, b) => IterExpr::Range(self.expr(a), self.expr(b)),
               IterExpr::Array(es) => IterExpr::Array(es.iter().map(|e| self.expr(e)).collect()),
               IterExpr::VecIter(es) => IterExpr::VecIter(es.iter().map(|e| self.expr(e)).collect()),
            };
            BodyItem::For { pat: self.pat(pat), iter }
         },
         BodyItem::Agg { pat, agg, bound, rel, args } => {
            let args = args.iter().map(|a| self.arg(a)).collect();
            let bound = bound.iter().map(|b| self.name(b)).collect();
            BodyItem::Agg { pat: self.pat(pat), agg: agg.clone(), bound, rel: self.rel(rel), args }
         },
         BodyItem::Neg { rel, args } =>
            BodyItem::Neg { rel: self.rel(rel), args: args.iter().map(|a| self.arg(a)).collect() },
         BodyItem::Disj(ds) => BodyItem::Disj(ds.iter().map(|d| d.iter().map(|i| self.item(i)).collect()).collect()),
         BodyItem::MacroCall { name, args } => BodyItem::MacroCall { name: name.clone(), args: self.margs(args) },
      }
   }
   fn head(&mut self, h: &HeadItem) -> HeadItem {
      match h {
         HeadItem::Clause { rel, args } =>
            HeadItem::Clause { rel: self.rel(rel), args: args.iter().map(|e| self.expr(e)).collect() },
         HeadItem::MacroCall { name, args } => HeadItem::MacroCall { name: name.clone(), args: self.margs(args) },
      }
   }
}

fn subst_for(def: &MacroDef, args: &[MacroArg], counter: &mut usize) -> Subst {
   assert_eq!(def.params.len(), args.len(), "macro {} arity", def.name);
   let mut params = BTreeMap::new();
   for (p, a) in def.params.iter().zip(args.iter()) {
      if p.is_ident {
         assert!(a.is_ident);
         params.insert(format!("${}", p.name), Sub::Ident(a.ident.clone()));
      } else {
         let e = if a.is_ident { Expr::Var(a.ident.clone()) } else { a.expr.clone().unwrap() };
         params.insert(format!("$${}", p.name), Sub::Expr(e));
      }
   }
   *counter += 1;
   Subst { params, locals: BTreeMap::new(), fresh_tag: format!("{MACRO_LOCAL_MARK}{}", *counter) }
}

const MAX_MACRO_DEPTH: usize = 50;

fn expand_items_depth(items: &[BodyItem], prog: &Program, counter: &mut usize, depth: usize) -> Vec<BodyItem> {
   assert!(depth < MAX_MACRO_DEPTH, "recursive macro in reference expander");
   let mut out = vec![];
   for it in items {
      match it {
         BodyItem::MacroCall { name, args } => {
            let def = prog.macros.iter().find(|m| &m.name == name).unwrap_or_else(|| panic!("undefined macro {name}"));
            let mut s = subst_for(def, args, counter);
            let body: Vec<BodyItem> = def.body.iter().map(|i| s.item(i)).collect();
            out.extend(expand_items_depth(&body, prog, counter, depth + 1));
         },
         BodyItem::Disj(ds) =>
            out.push(BodyItem::Disj(ds.iter().map(|d| expand_items_depth(d, prog, counter, depth + 1)).collect())),
         other => out.push(other.clone()),
      }
   }
   out
}

pub fn expand_body_item(it: &BodyItem, prog: &Program, counter: &mut usize) -> Vec<BodyItem> {
   expand_items_depth(std::slice::from_ref(it), prog, counter, 0)
}

fn expand_heads_depth(heads: &[HeadItem], prog: &Program, counter: &mut usize, depth: usize) -> Vec<HeadItem> {
   assert!(depth < MAX_MACRO_DEPTH, "recursive macro in reference expander");
   let mut out = vec![];
   for h in heads {
      match h {
         HeadItem::MacroCall { name, args } => {
            let def = prog.macros.iter().find(|m| &m.name == name).unwrap_or_else(|| panic!("undefined macro {name}"));
            let mut s = subst_for(def, args, counter);
            let hs: Vec<HeadItem> = def.head.iter().map(|h| s.head(h)).collect();
            out.extend(expand_heads_depth(&hs, prog, counter, depth + 1));
         },
         other => out.push(other.clone()),
      }
   }
   out
}

/// Hygienic reference expansion: parameters substituted, every identifier introduced by a macro body
/// renamed freshly per invocation. The result has no macro definitions or calls.
pub fn expand_macros(prog: &Program) -> Program {
   let mut counter = 0usize;
   let rules = prog
      .rules
      .iter()
      .map(|r| Rule {
         heads: expand_heads_depth(&r.heads, prog, &mut counter, 0),
         body: expand_items_depth(&r.body, prog, &mut counter, 0),
      })
      .collect();
   Program { rels: prog.rels.clone(), rules, macros: vec![] }
}
