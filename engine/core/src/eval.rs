//! Reference evaluator: naive, stratified, bottom-up. No indices, no semi-naive deltas, no join
//! reordering. It is the oracle for least-model / lattice-lfp / stratified semantics.

use std::collections::{BTreeMap, BTreeSet};

use crate::ast::*;
use crate::val::{self, Db, Row, Val};

#[derive(Clone, Debug)]
pub struct EvalOpts {
   pub max_steps: u64,
   pub max_rows: usize,
}

impl Default for EvalOpts {
   fn default() -> Self { EvalOpts { max_steps: 3_000_000, max_rows: 60_000 } }
}

#[derive(Clone, Debug, PartialEq, Eq)]
pub enum EvalError {
   TooBig,
   Unstratifiable(String),
   Bad(String),
}

#[derive(Clone, Debug, Default)]
pub struct SccStats {
   pub rels: Vec<String>,
   pub looping: bool,
   /// number of rounds in which something new was added
   pub productive_rounds: usize,
}

#[derive(Clone, Debug, Default)]
pub struct EvalStats {
   pub sccs: Vec<SccStats>,
   pub steps: u64,
   /// head derivations (including re-derivations)
   pub derivations: u64,
   /// tuples that were derived at least twice within one round
   pub multi_derived_same_round: u64,
   /// tuples derived again in a later round than the one that first added them (or that were inputs)
   pub rederived_later: u64,
   /// derived tuples not present in the input
   pub derived_new: u64,
   /// max number of strict increases of one lattice key
   pub max_lat_increases: usize,
   /// number of distinct rounds in which some lattice key strictly increased (max over sccs)
   pub lat_improving_rounds: usize,
   /// agg groups: (number of groups evaluated with >= 2 tuples)
   pub agg_groups_ge2: u64,
   pub neg_true: u64,
   pub neg_false: u64,
   /// rounds in which a BYODS relation received new facts
   pub ds_rounds_with_new: usize,
}

#[derive(Clone, Debug)]
pub struct EvalResult {
   /// relations as sorted, duplicate-free row lists (lattices: one row per key)
   pub db: Db,
   pub stats: EvalStats,
}

#[derive(Clone, Debug)]
enum RelState {
   Set(BTreeSet<Row>),
   Lat(BTreeMap<Row, Val>),
}

impl RelState {
   fn rows(&self) -> Vec<Row> {
      match self {
         RelState::Set(s) => s.iter().cloned().collect(),
         RelState::Lat(m) => m
            .iter()
            .map(|(k, v)| {
               let mut r = k.clone();
               r.push(v.clone());
               r
            })
            .collect(),
      }
   }
   fn len(&self) -> usize {
      match self {
         RelState::Set(s) => s.len(),
         RelState::Lat(m) => m.len(),
      }
   }
}

type Env = Vec<(String, Val)>;

fn lookup<'a>(env: &'a Env, name: &str) -> Option<&'a Val> {
   env.iter().rev().find(|(n, _)| n == name).map(|(_, v)| v)
}

pub struct Evaluator<'p> {
   prog: &'p Program,
   state: BTreeMap<String, RelState>,
   opts: EvalOpts,
   pub stats: EvalStats,
}

pub fn body_rels(items: &[BodyItem], plain: &mut Vec<String>, strat: &mut Vec<String>) {
   for it in items {
      match it {
         BodyItem::Clause { rel, .. } => plain.push(rel.clone()),
         BodyItem::Agg { rel, .. } | BodyItem::Neg { rel, .. } => strat.push(rel.clone()),
         BodyItem::Disj(ds) =>
            for d in ds {
               body_rels(d, plain, strat)
            },
         BodyItem::Cond(_) | BodyItem::For { .. } | BodyItem::MacroCall { .. } => {},
      }
   }
}

/// Strongly connected components of the relation dependency graph, in evaluation (topological) order.
pub fn relation_sccs(prog: &Program) -> Vec<Vec<String>> {
   let names: Vec<String> = {
      let mut seen = BTreeSet::new();
      prog.rels.iter().filter(|r| seen.insert(r.name.clone())).map(|r| r.name.clone()).collect()
   };
   let idx: BTreeMap<&str, usize> = names.iter().enumerate().map(|(i, n)| (n.as_str(), i)).collect();
   let n = names.len();
   // edges body -> head
   let mut succ: Vec<BTreeSet<usize>> = vec![BTreeSet::new(); n];
   for rule in &prog.rules {
      let (mut plain, mut strat) = (vec![], vec![]);
      body_rels(&rule.body, &mut plain, &mut strat);
      for (h, _) in rule.head_clauses() {
         for b in plain.iter().chain(strat.iter()) {
            succ[idx[b.as_str()]].insert(idx[h.as_str()]);
         }
      }
   }
   // Tarjan
   struct T<'a> {
      succ: &'a [BTreeSet<usize>],
      index: Vec<Option<usize>>,
      low: Vec<usize>,
      on: Vec<bool>,
      stack: Vec<usize>,
      next: usize,
      out: Vec<Vec<usize>>,
   }
   fn visit(t: &mut T, v: usize) {
      t.index[v] = Some(t.next);
      t.low[v] = t.next;
      t.next += 1;
      t.stack.push(v);
      t.on[v] = true;
      for &w in t.succ[v].iter() {
         if t.index[w].is_none() {
            visit(t, w);
            t.low[v] = t.low[v].min(t.low[w]);
         } else if t.on[w] {
            t.low[v] = t.low[v].min(t.index[w].unwrap());
         }
      }
      if t.low[v] == t.index[v].unwrap() {
         let mut comp = vec![];
         loop {
            let w = t.stack.pop().unwrap();
            t.on[w] = false;
            comp.push(w);
            if w == v {
               break;
            }
         }
         t.out.push(comp);
      }
   }
   let mut t = T { succ: &succ, index: vec![None; n], low: vec![0; n], on: vec![false; n], stack: vec![], next: 0, out: vec![] };
   for v in 0..n {
      if t.index[v].is_none() {
         visit(&mut t, v);
      }
   }
   // Tarjan emits components in reverse topological order of the condensation (sinks first)
   t.out.reverse();
   t.out.into_iter().map(|c| c.into_iter().map(|i| names[i].clone()).collect()).collect()
}

impl<'p> Evaluator<'p> {
   pub fn new(prog: &'p Program, opts: EvalOpts) -> Self {
      let mut state = BTreeMap::new();
      for r in &prog.rels {
         state.insert(
            r.name.clone(),
            if prog.rel(&r.name).is_lattice { RelState::Lat(Default::default()) } else { RelState::Set(Default::default()) },
         );
      }
      Evaluator { prog, state, opts, stats: Default::default() }
   }

   fn step(&mut self) -> Result<(), EvalError> {
      self.stats.steps += 1;
      if self.stats.steps > self.opts.max_steps { Err(EvalError::TooBig) } else { Ok(()) }
   }

   pub fn load(&mut self, input: &Db) {
      for (rel, rows) in &input.rels {
         if !self.prog.has_rel(rel) {
            continue;
         }
         for row in rows {
            self.insert(rel, row.clone());
         }
      }
      self.close_all_ds();
   }

   /// returns true if the state changed
   fn insert(&mut self, rel: &str, row: Row) -> bool {
      let decl = self.prog.rel(rel);
      match self.state.get_mut(rel).unwrap() {
         RelState::Set(s) => s.insert(row),
         RelState::Lat(m) => {
            let ty = *decl.cols.last().unwrap();
            let mut key = row;
            let v = key.pop().unwrap();
            match m.get_mut(&key) {
               None => {
                  m.insert(key, v);
                  true
               },
               Some(old) => {
                  let j = val::join(ty, old, &v);
                  if &j != old {
                     *old = j;
                     true
                  } else {
                     false
                  }
               },
            }
         },
      }
   }

   fn close_all_ds(&mut self) {
      let names: Vec<(String, Ds)> = {
         let mut seen = BTreeSet::new();
         self
            .prog
            .rels
            .iter()
            .filter(|r| seen.insert(r.name.clone()))
            .filter_map(|r| self.prog.rel(&r.name).ds.map(|d| (r.name.clone(), d)))
            .collect()
      };
      for (n, ds) in names {
         if let RelState::Set(s) = self.state.get_mut(&n).unwrap() {
            close_ds(ds, s);
         }
      }
   }

   pub fn run(&mut self) -> Result<(), EvalError> {
      let prog = self.prog;
      let sccs = relation_sccs(prog);
      let scc_of: BTreeMap<String, usize> =
         sccs.iter().enumerate().flat_map(|(i, c)| c.iter().map(move |r| (r.clone(), i))).collect();
      // stratification check
      for rule in &prog.rules {
         let (mut plain, mut strat) = (vec![], vec![]);
         body_rels(&rule.body, &mut plain, &mut strat);
         for (h, _) in rule.head_clauses() {
            for b in &strat {
               if scc_of[b] >= scc_of[h] {
                  return Err(EvalError::Unstratifiable(format!("{b} used under agg/negation by a rule for {h}")));
               }
            }
         }
      }
      for (ci, comp) in sccs.iter().enumerate() {
         let comp_set: BTreeSet<&str> = comp.iter().map(|s| s.as_str()).collect();
         // (rule index, head index) pairs whose head is in this component
         let mut jobs: Vec<(usize, usize)> = vec![];
         let mut looping = false;
         for (ri, rule) in prog.rules.iter().enumerate() {
            for (hi, h) in rule.heads.iter().enumerate() {
               if let HeadItem::Clause { rel, .. } = h {
                  if comp_set.contains(rel.as_str()) {
                     jobs.push((ri, hi));
                     let (mut plain, mut strat) = (vec![], vec![]);
                     body_rels(&rule.body, &mut plain, &mut strat);
                     if plain.iter().any(|b| comp_set.contains(b.as_str())) {
                        looping = true;
                     }
                  }
               }
            }
         }
         let mut scc_stats = SccStats { rels: comp.clone(), looping, productive_rounds: 0 };
         let mut lat_increase_count: BTreeMap<(String, Row), usize> = BTreeMap::new();
         let mut lat_rounds = 0usize;
         let has_ds = comp.iter().any(|r| prog.rel(r).ds.is_some());
         if jobs.is_empty() {
            self.stats.sccs.push(scc_stats);
            continue;
         }
         loop {
            // strict rounds: derive everything from the current state, then add
            let mut derived: Vec<(String, Row)> = vec![];
            for &(ri, hi) in &jobs {
               let rule = &prog.rules[ri];
               let HeadItem::Clause { rel, args } = &rule.heads[hi] else { unreachable!() };
               let mut env: Env = vec![];
               let mut out: Vec<Row> = vec![];
               self.eval_items(&rule.body, &mut env, &mut |ev, env| {
                  let mut row = Vec::with_capacity(args.len());
                  for a in args {
                     row.push(ev.expr(a, env)?);
                  }
                  out.push(row);
                  Ok(())
               })?;
               for row in out {
                  derived.push((rel.clone(), row));
               }
            }
            self.stats.derivations += derived.len() as u64;
            let mut round_counts: BTreeMap<(String, Row), u32> = BTreeMap::new();
            let mut changed = false;
            let mut lat_improved = false;
            let mut ds_new = false;
            for (rel, row) in derived {
               let decl = prog.rel(&rel);
               if !decl.is_lattice {
                  let c = round_counts.entry((rel.clone(), row.clone())).or_insert(0);
                  *c += 1;
                  if *c == 2 {
                     self.stats.multi_derived_same_round += 1;
                  }
                  let present = match &self.state[&rel] {
                     RelState::Set(s) => s.contains(&row),
                     _ => unreachable!(),
                  };
                  if present {
                     if *c == 1 {
                        self.stats.rederived_later += 1;
                     }
                  } else {
                     self.stats.derived_new += 1;
                     if decl.ds.is_some() {
                        ds_new = true;
                     }
                  }
                  if self.insert(&rel, row) {
                     changed = true;
                  }
               } else {
                  let key: Row = row[..row.len() - 1].to_vec();
                  let existed = match &self.state[&rel] {
                     RelState::Lat(m) => m.contains_key(&key),
                     _ => unreachable!(),
                  };
                  let c = round_counts.entry((rel.clone(), key.clone())).or_insert(0);
                  *c += 1;
                  if *c == 2 {
                     self.stats.multi_derived_same_round += 1;
                  }
                  if self.insert(&rel, row) {
                     changed = true;
                     if existed {
                        lat_improved = true;
                        *lat_increase_count.entry((rel.clone(), key)).or_insert(0) += 1;
                     } else {
                        self.stats.derived_new += 1;
                     }
                  }
               }
            }
            if has_ds {
               self.close_all_ds();
            }
            if ds_new {
               self.stats.ds_rounds_with_new += 1;
            }
            if lat_improved {
               lat_rounds += 1;
            }
            let total: usize = self.state.values().map(|s| s.len()).sum();
            if total > self.opts.max_rows {
               return Err(EvalError::TooBig);
            }
            if !changed {
               break;
            }
            scc_stats.productive_rounds += 1;
            if !looping {
               break;
            }
         }
         let _ = ci;
         self.stats.max_lat_increases =
            self.stats.max_lat_increases.max(lat_increase_count.values().copied().max().unwrap_or(0));
         self.stats.lat_improving_rounds = self.stats.lat_improving_rounds.max(lat_rounds);
         self.stats.sccs.push(scc_stats);
      }
      Ok(())
   }

   pub fn result_db(&self) -> Db {
      let mut db = Db::default();
      for (n, s) in &self.state {
         db.rels.insert(n.clone(), s.rows());
      }
      db
   }

   fn rows_of(&self, rel: &str) -> Vec<Row> { self.state[rel].rows() }

   fn eval_items(
      &mut self, items: &[BodyItem], env: &mut Env, k: &mut dyn FnMut(&mut Self, &mut Env) -> Result<(), EvalError>,
   ) -> Result<(), EvalError> {
      self.step()?;
      let Some((first, rest)) = items.split_first() else {
         return k(self, env);
      };
      match first {
         BodyItem::Clause { rel, args, conds } => {
            let rows = self.rows_of(rel);
            'rows: for row in rows {
               self.step()?;
               let mark = env.len();
               if row.len() != args.len() {
                  return Err(EvalError::Bad(format!("arity mismatch for {rel}")));
               }
               // pass 1: variables, wildcards, patterns
               for (a, v) in args.iter().zip(row.iter()) {
                  match a {
                     Arg::Var(x) => match lookup(env, x) {
                        Some(b) =>
                           if b != v {
                              env.truncate(mark);
                              continue 'rows;
                           },
                        None => env.push((x.clone(), v.clone())),
                     },
                     Arg::Wild => {},
                     Arg::Pat(p) =>
                        if !match_pat(p, v, env) {
                           env.truncate(mark);
                           continue 'rows;
                        },
                     Arg::Expr(_) => {},
                  }
               }
               // pass 2: expression arguments are equality tests
               for (a, v) in args.iter().zip(row.iter()) {
                  if let Arg::Expr(e) = a {
                     if &self.expr(e, env)? != v {
                        env.truncate(mark);
                        continue 'rows;
                     }
                  }
               }
               let conds_items: Vec<BodyItem> = conds.iter().cloned().map(BodyItem::Cond).collect();
               let mut all: Vec<BodyItem> = conds_items;
               all.extend_from_slice(rest);
               self.eval_items(&all, env, k)?;
               env.truncate(mark);
            }
            Ok(())
         },
         BodyItem::Cond(c) => {
            let mark = env.len();
            let ok = match c {
               Cond::If(e) => self.expr(e, env)?.boolean(),
               Cond::IfLet(p, e) => {
                  let v = self.expr(e, env)?;
                  match_pat(p, &v, env)
               },
               Cond::Let(p, e) => {
                  let v = self.expr(e, env)?;
                  if !match_pat(p, &v, env) {
                     return Err(EvalError::Bad("refutable let pattern".into()));
                  }
                  true
               },
            };
            if ok {
               self.eval_items(rest, env, k)?;
            }
            env.truncate(mark);
            Ok(())
         },
         BodyItem::For { pat, iter } => {
            let vals: Vec<Val> = match iter {
               IterExpr::Range(lo, hi) => {
                  let lo = self.expr(lo, env)?.int();
                  let hi = self.expr(hi, env)?.int();
                  (lo..hi).map(Val::I).collect()
               },
               IterExpr::Array(es) | IterExpr::VecIter(es) => {
                  let mut out = vec![];
                  for e in es {
                     out.push(self.expr(e, env)?);
                  }
                  out
               },
            };
            for v in vals {
               let mark = env.len();
               if match_pat(pat, &v, env) {
                  self.eval_items(rest, env, k)?;
               }
               env.truncate(mark);
            }
            Ok(())
         },
         BodyItem::Agg { pat, agg, bound, rel, args } => {
            let rows = self.rows_of(rel);
            let mut inputs: Vec<Row> = vec![];
            'rows: for row in rows {
               self.step()?;
               let mut captured: BTreeMap<&str, Val> = BTreeMap::new();
               for (a, v) in args.iter().zip(row.iter()) {
                  match a {
                     Arg::Wild => {},
                     Arg::Var(x) if bound.contains(x) => {
                        captured.insert(x.as_str(), v.clone());
                     },
                     Arg::Var(x) => match lookup(env, x) {
                        Some(b) =>
                           if b != v {
                              continue 'rows;
                           },
                        None => return Err(EvalError::Bad(format!("unbound variable {x} in aggregate"))),
                     },
                     Arg::Expr(e) =>
                        if &self.expr(e, env)? != v {
                           continue 'rows;
                        },
                     Arg::Pat(_) => return Err(EvalError::Bad("pattern in aggregate".into())),
                  }
               }
               inputs.push(bound.iter().map(|b| captured[b.as_str()].clone()).collect());
            }
            if inputs.len() >= 2 {
               self.stats.agg_groups_ge2 += 1;
            }
            let results = aggregate(agg, &inputs)?;
            for v in results {
               let mark = env.len();
               if match_pat(pat, &v, env) {
                  self.eval_items(rest, env, k)?;
               }
               env.truncate(mark);
            }
            Ok(())
         },
         BodyItem::Neg { rel, args } => {
            let rows = self.rows_of(rel);
            let mut any = false;
            'rows: for row in rows {
               self.step()?;
               for (a, v) in args.iter().zip(row.iter()) {
                  match a {
                     Arg::Wild => {},
                     Arg::Var(x) => match lookup(env, x) {
                        Some(b) =>
                           if b != v {
                              continue 'rows;
                           },
                        None => return Err(EvalError::Bad(format!("unbound variable {x} in negation"))),
                     },
                     Arg::Expr(e) =>
                        if &self.expr(e, env)? != v {
                           continue 'rows;
                        },
                     Arg::Pat(_) => return Err(EvalError::Bad("pattern in negation".into())),
                  }
               }
               any = true;
               break;
            }
            if any {
               self.stats.neg_false += 1;
               Ok(())
            } else {
               self.stats.neg_true += 1;
               self.eval_items(rest, env, k)
            }
         },
         BodyItem::Disj(disjuncts) => {
            for d in disjuncts {
               let mark = env.len();
               let mut all = d.clone();
               all.extend_from_slice(rest);
               self.eval_items(&all, env, k)?;
               env.truncate(mark);
            }
            Ok(())
         },
         BodyItem::MacroCall { name, .. } => Err(EvalError::Bad(format!("unexpanded macro call {name}!"))),
      }
   }

   pub fn expr(&mut self, e: &Expr, env: &Env) -> Result<Val, EvalError> { eval_expr(e, env) }
}

pub fn eval_expr(e: &Expr, env: &Env) -> Result<Val, EvalError> {
   let ev = |e: &Expr| eval_expr(e, env);
   Ok(match e {
      Expr::Var(x) => lookup(env, x).cloned().ok_or_else(|| EvalError::Bad(format!("unbound variable {x}")))?,
      Expr::Int(i, _) => Val::I(*i),
      Expr::Str(s) => Val::S(s.clone()),
      Expr::Bool(b) => Val::B(*b),
      Expr::AddMod(a, c, d) => Val::I((ev(a)?.int() + c).rem_euclid(*d)),
      Expr::SatAdd(a, b, cap) => Val::I((ev(a)?.int() + ev(b)?.int()).min(*cap)),
      Expr::Min(a, b) => Val::I(ev(a)?.int().min(ev(b)?.int())),
      Expr::Max(a, b) => Val::I(ev(a)?.int().max(ev(b)?.int())),
      Expr::Some_(a) => Val::some(ev(a)?),
      Expr::None_(_) => Val::None_,
      Expr::Tup(es) => {
         let mut out = vec![];
         for e in es {
            out.push(ev(e)?);
         }
         Val::Tup(out)
      },
      Expr::Proj(a, i) => match ev(a)? {
         Val::Tup(vs) => vs[*i].clone(),
         other => return Err(EvalError::Bad(format!("projection on {other:?}"))),
      },
      Expr::DualOf(a) => Val::dual(ev(a)?),
      Expr::UnDual(a) => match ev(a)? {
         Val::Dual(v) => *v,
         other => return Err(EvalError::Bad(format!("undual on {other:?}"))),
      },
      Expr::SetSingle(a) | Expr::BSetSingle(a) => Val::set_of([ev(a)?]),
      Expr::SetUnion(a, b) => val::join(Ty::SetU8, &ev(a)?, &ev(b)?),
      Expr::SetContains(s, x) => match ev(s)? {
         Val::Set(set) => Val::B(set.contains(&ev(x)?)),
         Val::BTop => Val::B(true),
         other => return Err(EvalError::Bad(format!("contains on {other:?}"))),
      },
      Expr::SetLenGe(s, n) => match ev(s)? {
         Val::Set(set) => Val::B(set.len() as i64 >= *n),
         other => return Err(EvalError::Bad(format!("len on {other:?}"))),
      },
      Expr::CConst(a) => Val::CConst(Box::new(ev(a)?)),
      Expr::CTop => Val::CTop,
      Expr::CBot => Val::CBot,
      Expr::ProdOf(a, b) => Val::Prod(Box::new(ev(a)?), Box::new(ev(b)?)),
      Expr::ProdFst(a) => match ev(a)? {
         Val::Prod(x, _) => *x,
         other => return Err(EvalError::Bad(format!("ProdFst on {other:?}"))),
      },
      Expr::Cast(a, ty) => match (ev(a)?, ty) {
         (Val::I(i), t) if t.is_int() => Val::I(i),
         (Val::F(bits), t) if t.is_int() => Val::I(f64::from_bits(bits) as i64),
         (Val::I(i), Ty::F64) => Val::F((i as f64).to_bits()),
         (v, t) => return Err(EvalError::Bad(format!("cast {v:?} as {t:?}"))),
      },
      Expr::Cmp(op, a, b) => {
         let (a, b) = (ev(a)?, ev(b)?);
         Val::B(match op {
            CmpOp::Eq => a == b,
            CmpOp::Ne => a != b,
            // integers and tuples of integers (lexicographic, like Rust's tuple Ord)
            CmpOp::Lt => a < b,
            CmpOp::Le => a <= b,
         })
      },
      Expr::And(a, b) => Val::B(ev(a)?.boolean() && ev(b)?.boolean()),
      Expr::Or(a, b) => Val::B(ev(a)?.boolean() || ev(b)?.boolean()),
      Expr::Not(a) => Val::B(!ev(a)?.boolean()),
      Expr::LetBlock(x, init, body) => {
         let v = ev(init)?;
         let mut inner = env.clone();
         inner.push((x.clone(), v));
         eval_expr(body, &inner)?
      },
   })
}

pub fn match_pat(p: &Pat, v: &Val, env: &mut Env) -> bool {
   match (p, v) {
      (Pat::Wild, _) => true,
      (Pat::Var(x), _) => {
         env.push((x.clone(), v.clone()));
         true
      },
      (Pat::Bind(x, inner), _) => {
         env.push((x.clone(), v.clone()));
         match_pat(inner, v, env)
      },
      (Pat::Some_(inner), Val::Some_(iv)) => match_pat(inner, iv, env),
      (Pat::Some_(_), Val::None_) => false,
      (Pat::None_, Val::None_) => true,
      (Pat::None_, Val::Some_(_)) => false,
      (Pat::Tup(ps), Val::Tup(vs)) if ps.len() == vs.len() => ps.iter().zip(vs.iter()).all(|(p, v)| match_pat(p, v, env)),
      (Pat::Dual(inner), Val::Dual(iv)) => match_pat(inner, iv, env),
      (Pat::CConst(inner), Val::CConst(iv)) => match_pat(inner, iv, env),
      (Pat::CConst(_), Val::CTop | Val::CBot) => false,
      (Pat::Lit(i), Val::I(j)) => i == j,
      (p, v) => panic!("pattern {p:?} cannot be matched against {v:?}"),
   }
}

/// The aggregators' mathematical definitions, written independently of ascent::aggregators.
pub fn aggregate(agg: &Aggregator, inputs: &[Row]) -> Result<Vec<Val>, EvalError> {
   let col0 = || -> Vec<&Val> { inputs.iter().map(|r| &r[0]).collect() };
   Ok(match agg {
      Aggregator::Count | Aggregator::CollectLen => vec![Val::I(inputs.len() as i64)],
      Aggregator::Not => if inputs.is_empty() { vec![Val::Tup(vec![])] } else { vec![] },
      Aggregator::Sum => vec![Val::I(col0().iter().map(|v| v.int()).sum())],
      Aggregator::Min => col0().into_iter().min().cloned().into_iter().collect(),
      Aggregator::Max => col0().into_iter().max().cloned().into_iter().collect(),
      Aggregator::Mean =>
         if inputs.is_empty() {
            vec![]
         } else {
            let s: i64 = col0().iter().map(|v| v.int()).sum();
            vec![Val::F((s as f64 / inputs.len() as f64).to_bits())]
         },
      Aggregator::Percentile(p) =>
         if inputs.is_empty() {
            vec![]
         } else {
            let mut sorted: Vec<&Val> = col0();
            sorted.sort();
            let n = sorted.len();
            let idx = ((n as f64) * (*p as f64) / 100.0) as usize;
            vec![sorted[idx.min(n - 1)].clone()]
         },
      Aggregator::MinMax => match (col0().into_iter().min(), col0().into_iter().max()) {
         (Some(lo), Some(hi)) => vec![Val::Tup(vec![lo.clone(), hi.clone()])],
         _ => vec![],
      },
      Aggregator::Top2 => {
         let set: BTreeSet<&Val> = col0().into_iter().collect();
         set.into_iter().rev().take(2).cloned().collect()
      },
   })
}

/// Explicit closure of a BYODS-tagged relation (what the explicit rules would produce).
pub fn close_ds(ds: Ds, s: &mut BTreeSet<Row>) {
   if s.is_empty() {
      return;
   }
   let arity = s.iter().next().unwrap().len();
   // group by key prefix (empty for binary)
   let mut groups: BTreeMap<Vec<Val>, BTreeSet<(Val, Val)>> = BTreeMap::new();
   for r in s.iter() {
      let (k, rest) = r.split_at(arity - 2);
      groups.entry(k.to_vec()).or_default().insert((rest[0].clone(), rest[1].clone()));
   }
   for (k, pairs) in groups.iter_mut() {
      let elems: BTreeSet<Val> = pairs.iter().flat_map(|(a, b)| [a.clone(), b.clone()]).collect();
      if matches!(ds, Ds::EqRel | Ds::TrRelUf) {
         for e in &elems {
            pairs.insert((e.clone(), e.clone()));
         }
      }
      if matches!(ds, Ds::EqRel) {
         let sym: Vec<(Val, Val)> = pairs.iter().map(|(a, b)| (b.clone(), a.clone())).collect();
         pairs.extend(sym);
      }
      // transitive closure (naive)
      loop {
         let mut add = vec![];
         for (a, b) in pairs.iter() {
            for (c, d) in pairs.iter() {
               if b == c && !pairs.contains(&(a.clone(), d.clone())) {
                  add.push((a.clone(), d.clone()));
               }
            }
         }
         if add.is_empty() {
            break;
         }
         pairs.extend(add);
      }
      for (a, b) in pairs.iter() {
         let mut row = k.clone();
         row.push(a.clone());
         row.push(b.clone());
         s.insert(row);
      }
   }
}

/// Evaluate `prog` (macro-free) on `input`.
pub fn eval(prog: &Program, input: &Db, opts: EvalOpts) -> Result<EvalResult, EvalError> {
   let expanded;
   let prog = if prog.macros.is_empty() {
      prog
   } else {
      expanded = crate::xform::expand_macros(prog);
      &expanded
   };
   let mut ev = Evaluator::new(prog, opts);
   ev.load(input);
   ev.run()?;
   Ok(EvalResult { db: ev.result_db(), stats: ev.stats })
}
