//! Core of the verification engine: AST of the Ascent subset, value domain, reference evaluator,
//! printer, generators and metamorphic transforms. Shares no code with ascent / ascent_macro / ascent_base.
pub mod ast;
pub mod val;
pub mod eval;
pub mod print;
pub mod rng;
pub mod gen;
pub mod gen_lat;
pub mod gen_mac;
pub mod gen_ds;
pub mod illformed;
pub mod xform;
pub mod meta;
