//! Source of random choices for program generation. The generator binary implements it on top of
//! proptest's seeded ChaCha `TestRng`; fuzz targets can implement it on top of `arbitrary::Unstructured`.

pub trait Src {
   fn next_u64(&mut self) -> u64;

   /// uniform in 0..n (n > 0)
   fn below(&mut self, n: usize) -> usize {
      assert!(n > 0);
      (self.next_u64() % n as u64) as usize
   }
   /// inclusive range
   fn range(&mut self, lo: i64, hi: i64) -> i64 {
      assert!(lo <= hi);
      lo + (self.next_u64() % (hi - lo + 1) as u64) as i64
   }
   /// true with probability pct/100
   fn chance(&mut self, pct: u32) -> bool { self.next_u64() % 100 < pct as u64 }
   fn pick<'a, T>(&mut self, xs: &'a [T]) -> &'a T {
      let i = self.below(xs.len());
      &xs[i]
   }
   /// index chosen with the given weights
   fn weighted(&mut self, ws: &[u32]) -> usize {
      let total: u64 = ws.iter().map(|&w| w as u64).sum();
      assert!(total > 0);
      let mut x = self.next_u64() % total;
      for (i, &w) in ws.iter().enumerate() {
         if x < w as u64 {
            return i;
         }
         x -= w as u64;
      }
      unreachable!()
   }
   fn shuffle<T>(&mut self, xs: &mut [T]) {
      for i in (1..xs.len()).rev() {
         let j = self.below(i + 1);
         xs.swap(i, j);
      }
   }
}

/// splitmix64: used only where a cheap deterministic stream derived from a seed is needed
/// (e.g. deriving sub-seeds); all case generation goes through proptest.
pub struct SplitMix(pub u64);
impl Src for SplitMix {
   fn next_u64(&mut self) -> u64 {
      self.0 = self.0.wrapping_add(0x9E37_79B9_7F4A_7C15);
      let mut z = self.0;
      z = (z ^ (z >> 30)).wrapping_mul(0xBF58_476D_1CE4_E5B9);
      z = (z ^ (z >> 27)).wrapping_mul(0x94D0_49BB_1331_11EB);
      z ^ (z >> 31)
   }
}
