//! AST -> Ascent source text (type-correct by construction) and the glue that lets the runner
//! load / run / read back a compiled program.

use std::collections::BTreeMap;
use std::fmt::Write;

use crate::ast::*;

#[derive(Clone, Copy, Debug, PartialEq, Eq)]
pub struct VarInfo {
   pub ty: Ty,
   /// bound by a body clause / by-reference pattern (type `&T`) rather than by value
   pub is_ref: bool,
   /// ref-ness unknown (inside macro definitions): print the ref-agnostic form
   pub unknown_ref: bool,
}

pub type VarEnv = BTreeMap<String, VarInfo>;

pub fn type_of(e: &Expr, env: &VarEnv) -> Ty {
   match e {
      Expr::Var(x) => env.get(x).unwrap_or_else(|| panic!("type_of: unbound variable {x}")).ty,
      Expr::Int(_, ty) => *ty,
      Expr::Str(_) => Ty::Str,
      Expr::Bool(_) => Ty::Bool,
      Expr::AddMod(a, _, _) | Expr::SatAdd(a, _, _) | Expr::Min(a, _) | Expr::Max(a, _) => type_of(a, env),
      Expr::Some_(a) => match type_of(a, env) {
         Ty::I32 => Ty::OptI32,
         Ty::U32 => Ty::OptU32,
         t => panic!("Some of {t:?}"),
      },
      Expr::None_(ty) => *ty,
      Expr::Tup(es) => match es.iter().map(|e| type_of(e, env)).collect::<Vec<_>>()[..] {
         [Ty::I32, Ty::I32] => Ty::PairI32,
         [Ty::U32, Ty::U32] => Ty::PairU32,
         [Ty::DualU32, Ty::U32] => Ty::PairDualU32,
         ref t => panic!("tuple of {t:?}"),
      },
      Expr::Proj(a, _) => match type_of(a, env) {
         Ty::PairI32 => Ty::I32,
         Ty::PairU32 => Ty::U32,
         t => panic!("projection on {t:?}"),
      },
      Expr::DualOf(a) => match type_of(a, env) {
         Ty::SetU8 => Ty::DualSetU8,
         _ => Ty::DualU32,
      },
      Expr::UnDual(a) => match type_of(a, env) {
         Ty::DualSetU8 => Ty::SetU8,
         _ => Ty::U32,
      },
      Expr::SetSingle(_) | Expr::SetUnion(..) => Ty::SetU8,
      Expr::SetContains(..) | Expr::SetLenGe(..) => Ty::Bool,
      Expr::BSetSingle(_) => Ty::BSetU8,
      Expr::CConst(_) | Expr::CTop | Expr::CBot => Ty::CPropU8,
      Expr::ProdOf(..) => Ty::ProdU32DualU32,
      Expr::ProdFst(_) => Ty::U32,
      Expr::Cast(_, ty) => *ty,
      Expr::LetBlock(_, init, _) => type_of(init, env),
      Expr::Cmp(..) | Expr::And(..) | Expr::Or(..) | Expr::Not(_) => Ty::Bool,
   }
}

/// component types of a pattern-matchable type
fn pat_bind(p: &Pat, ty: Ty, is_ref: bool, unknown_ref: bool, env: &mut VarEnv) {
   match p {
      Pat::Var(x) => {
         env.insert(x.clone(), VarInfo { ty, is_ref, unknown_ref });
      },
      Pat::Wild | Pat::None_ | Pat::Lit(_) => {},
      Pat::Bind(x, inner) => {
         env.insert(x.clone(), VarInfo { ty, is_ref, unknown_ref });
         pat_bind(inner, ty, is_ref, unknown_ref, env);
      },
      Pat::Some_(inner) => {
         let it = match ty {
            Ty::OptI32 => Ty::I32,
            Ty::OptU32 => Ty::U32,
            t => panic!("Some pattern on {t:?}"),
         };
         pat_bind(inner, it, is_ref, unknown_ref, env)
      },
      Pat::Tup(ps) => {
         let it = match ty {
            Ty::PairI32 => Ty::I32,
            Ty::PairU32 => Ty::U32,
            t => panic!("tuple pattern on {t:?}"),
         };
         for p in ps {
            pat_bind(p, it, is_ref, unknown_ref, env);
         }
      },
      Pat::Dual(inner) => pat_bind(inner, Ty::U32, is_ref, unknown_ref, env),
      Pat::CConst(inner) => pat_bind(inner, Ty::U8, is_ref, unknown_ref, env),
   }
}

pub fn agg_result_ty(agg: &Aggregator, prog: &Program, rel: &str, bound: &[String], args: &[Arg]) -> Ty {
   let col_ty = || {
      let b = &bound[0];
      let pos = args.iter().position(|a| matches!(a, Arg::Var(x) if x == b)).expect("aggregated variable not among args");
      prog.rel(rel).cols[pos]
   };
   match agg {
      Aggregator::Count | Aggregator::CollectLen => Ty::Usize,
      Aggregator::Sum | Aggregator::Min | Aggregator::Max | Aggregator::Percentile(_) | Aggregator::Top2 => col_ty(),
      Aggregator::Mean => Ty::F64,
      Aggregator::MinMax => match col_ty() {
         Ty::I32 => Ty::PairI32,
         Ty::U32 => Ty::PairU32,
         t => panic!("min_max over {t:?}"),
      },
      Aggregator::Not => Ty::Bool, // unit; never bound
   }
}

/// Extends `env` with the variables bound by `items` (in order). `in_macro`: ref-ness unknown.
pub fn bind_items(items: &[BodyItem], prog: &Program, env: &mut VarEnv, in_macro: bool) {
   for it in items {
      match it {
         BodyItem::Clause { rel, args, conds } => {
            let decl = prog.rel(rel);
            for (a, ty) in args.iter().zip(decl.cols.iter()) {
               match a {
                  Arg::Var(x) =>
                     if !env.contains_key(x) {
                        env.insert(x.clone(), VarInfo { ty: *ty, is_ref: true, unknown_ref: in_macro });
                     },
                  Arg::Pat(p) => pat_bind(p, *ty, true, in_macro, env),
                  Arg::Wild | Arg::Expr(_) => {},
               }
            }
            for c in conds {
               bind_cond(c, env, in_macro);
            }
         },
         BodyItem::Cond(c) => bind_cond(c, env, in_macro),
         BodyItem::For { pat, iter } => {
            let (ty, is_ref) = match iter {
               IterExpr::Range(lo, _) => (type_of(lo, env), false),
               IterExpr::Array(es) => (type_of(&es[0], env), false),
               IterExpr::VecIter(es) => (type_of(&es[0], env), true),
            };
            pat_bind(pat, ty, is_ref, in_macro, env);
         },
         BodyItem::Agg { pat, agg, bound, rel, args } => {
            let ty = agg_result_ty(agg, prog, rel, bound, args);
            if !matches!(agg, Aggregator::Not) {
               pat_bind(pat, ty, false, in_macro, env);
            }
         },
         BodyItem::Neg { .. } => {},
         BodyItem::Disj(ds) => {
            let mut envs: Vec<VarEnv> = vec![];
            for d in ds {
               let mut e = env.clone();
               bind_items(d, prog, &mut e, in_macro);
               envs.push(e);
            }
            // variables bound in every disjunct are visible afterwards
            let first = envs[0].clone();
            for (k, v) in first {
               if envs.iter().all(|e| e.contains_key(&k)) {
                  let mut v = v;
                  // ref-ness may differ between disjuncts; then use the agnostic form
                  if envs.iter().any(|e| e[&k].is_ref != v.is_ref) {
                     v.unknown_ref = true;
                  }
                  env.entry(k).or_insert(v);
               }
            }
         },
         BodyItem::MacroCall { .. } => {
            let expanded = crate::xform::expand_body_item(it, prog, &mut 0);
            let mut e = env.clone();
            bind_items(&expanded, prog, &mut e, in_macro);
            for (k, mut v) in e {
               if !k.contains(crate::xform::MACRO_LOCAL_MARK) {
                  v.unknown_ref = true;
                  env.entry(k).or_insert(v);
               }
            }
         },
      }
   }
}

fn bind_cond(c: &Cond, env: &mut VarEnv, in_macro: bool) {
   match c {
      Cond::If(_) => {},
      Cond::IfLet(p, e) => {
         let ty = type_of(e, env);
         // bare variable scrutinee keeps its ref-ness; anything else is printed as `&(owned)`
         let is_ref = match e {
            Expr::Var(x) => env[x].is_ref,
            _ => true,
         };
         let unknown = in_macro || matches!(e, Expr::Var(x) if env[x].unknown_ref);
         pat_bind(p, ty, is_ref, unknown, env);
      },
      Cond::Let(p, e) => {
         let ty = type_of(e, env);
         pat_bind(p, ty, false, in_macro, env);
      },
   }
}

pub fn lit(i: i64, ty: Ty) -> String { format!("{}{}", i, ty.suffix()) }

/// Owned-value expression text.
pub fn pe(e: &Expr, env: &VarEnv) -> String {
   match e {
      Expr::Var(x) => {
         if x.starts_with('$') {
            // macro parameter: ident params are printed in the ref-agnostic form, expr params verbatim
            return if x.starts_with("$$") { x[1..].to_string() } else { format!("{x}.clone()") };
         }
         let info = env.get(x).unwrap_or_else(|| panic!("pe: unbound variable {x}"));
         if info.unknown_ref {
            format!("{x}.clone()")
         } else {
            match (info.is_ref, info.ty.is_copy()) {
               (true, true) => format!("(*{x})"),
               (true, false) => format!("(*{x}).clone()"),
               (false, true) => x.clone(),
               (false, false) => format!("{x}.clone()"),
            }
         }
      },
      Expr::Int(i, ty) => lit(*i, *ty),
      Expr::Str(s) => format!("{s:?}.to_string()"),
      Expr::Bool(b) => format!("{b}"),
      Expr::AddMod(a, c, d) => {
         let ty = type_of(a, env);
         format!("(({} + {}) % {})", pe(a, env), lit(*c, ty), lit(*d, ty))
      },
      Expr::SatAdd(a, b, cap) => {
         let ty = type_of(a, env);
         format!("(({} + {}).min({}))", pe(a, env), pe(b, env), lit(*cap, ty))
      },
      Expr::Min(a, b) => format!("(({}).min({}))", pe(a, env), pe(b, env)),
      Expr::Max(a, b) => format!("(({}).max({}))", pe(a, env), pe(b, env)),
      Expr::Some_(a) => format!("Some({})", pe(a, env)),
      Expr::None_(ty) => match ty {
         Ty::OptI32 => "Option::<i32>::None".into(),
         Ty::OptU32 => "Option::<u32>::None".into(),
         t => panic!("None of {t:?}"),
      },
      Expr::Tup(es) => format!("({})", es.iter().map(|e| pe(e, env)).collect::<Vec<_>>().join(", ")),
      Expr::Proj(a, i) => format!("(({}).{})", pe(a, env), i),
      Expr::DualOf(a) => format!("::ascent::Dual({})", pe(a, env)),
      Expr::UnDual(a) => format!("(({}).0)", pe(a, env)),
      Expr::SetSingle(a) => format!("::ascent::lattice::set::Set::singleton({})", pe(a, env)),
      Expr::SetUnion(a, b) => format!("::vglue::set_union(&{}, &{})", pe(a, env), pe(b, env)),
      Expr::SetContains(s, x) => format!("(({}).contains(&({})))", pe(s, env), pe(x, env)),
      Expr::SetLenGe(s, n) => format!("(({}).len() >= {}usize)", pe(s, env), n),
      Expr::BSetSingle(a) => format!("::ascent::lattice::bounded_set::BoundedSet::<3, u8>::singleton({})", pe(a, env)),
      Expr::CConst(a) =>
         format!("::ascent::lattice::constant_propagation::ConstPropagation::Constant({})", pe(a, env)),
      Expr::CTop => "::ascent::lattice::constant_propagation::ConstPropagation::<u8>::Top".into(),
      Expr::CBot => "::ascent::lattice::constant_propagation::ConstPropagation::<u8>::Bottom".into(),
      Expr::ProdOf(a, b) => format!("::vglue::HProd::new({}, {})", pe(a, env), pe(b, env)),
      Expr::ProdFst(a) => format!("(({}).0.0.0)", pe(a, env)),
      Expr::Cast(a, ty) => format!("(({}) as {})", pe(a, env), ty.rust()),
      Expr::LetBlock(x, init, body) => {
         let ty = type_of(init, env);
         let mut inner = env.clone();
         inner.insert(x.clone(), VarInfo { ty, is_ref: false, unknown_ref: false });
         format!("{{ let {x} = {}; {} }}", pe(init, env), pe(body, &inner))
      },
      Expr::Cmp(op, a, b) => {
         let o = match op {
            CmpOp::Eq => "==",
            CmpOp::Ne => "!=",
            CmpOp::Lt => "<",
            CmpOp::Le => "<=",
         };
         format!("(({}) {} ({}))", pe(a, env), o, pe(b, env))
      },
      Expr::And(a, b) => format!("({} && {})", pe(a, env), pe(b, env)),
      Expr::Or(a, b) => format!("({} || {})", pe(a, env), pe(b, env)),
      Expr::Not(a) => format!("(!{})", pe(a, env)),
   }
}

pub fn pp(p: &Pat) -> String {
   match p {
      Pat::Var(x) => x.clone(),
      Pat::Wild => "_".into(),
      Pat::Some_(p) => format!("Some({})", pp(p)),
      Pat::None_ => "None".into(),
      Pat::Tup(ps) => match ps.len() {
         0 => "()".into(),
         1 => format!("({},)", pp(&ps[0])),
         _ => format!("({})", ps.iter().map(pp).collect::<Vec<_>>().join(", ")),
      },
      Pat::Dual(p) => format!("::ascent::Dual({})", pp(p)),
      Pat::CConst(p) => format!("::ascent::lattice::constant_propagation::ConstPropagation::Constant({})", pp(p)),
      Pat::Lit(i) => format!("{i}"),
      Pat::Bind(x, p) => format!("{x} @ {}", pp(p)),
   }
}

fn p_arg(a: &Arg, env: &VarEnv) -> String {
   match a {
      Arg::Var(x) => x.clone(),
      Arg::Wild => "_".into(),
      Arg::Expr(Expr::Var(x)) if x.starts_with("$$") => x[1..].to_string(),
      Arg::Expr(e) => pe(e, env),
      Arg::Pat(p) => format!("?{}", pp(p)),
   }
}

fn p_cond(c: &Cond, env: &VarEnv) -> String {
   match c {
      Cond::If(e) => format!("if {}", pe(e, env)),
      Cond::IfLet(p, e) => {
         let scrut = match e {
            Expr::Var(x) if !x.starts_with('$') => x.clone(),
            Expr::Var(x) if x.starts_with("$$") => format!("&({})", &x[1..]),
            Expr::Var(x) => x.clone(),
            _ => format!("&({})", pe(e, env)),
         };
         format!("if let {} = {}", pp(p), scrut)
      },
      Cond::Let(p, e) => format!("let {} = {}", pp(p), pe(e, env)),
   }
}

fn p_aggregator(a: &Aggregator) -> String {
   match a {
      Aggregator::Count => "::ascent::aggregators::count".into(),
      Aggregator::Sum => "::ascent::aggregators::sum".into(),
      Aggregator::Min => "::ascent::aggregators::min".into(),
      Aggregator::Max => "::ascent::aggregators::max".into(),
      Aggregator::Mean => "::ascent::aggregators::mean".into(),
      Aggregator::Percentile(p) => format!("(::ascent::aggregators::percentile({p}.0))"),
      Aggregator::Top2 => "::vglue::aggs::top2".into(),
      Aggregator::CollectLen => "::vglue::aggs::collect_len".into(),
      Aggregator::MinMax => "::vglue::aggs::min_max".into(),
      Aggregator::Not => "::ascent::aggregators::not".into(),
   }
}

fn p_macro_args(args: &[MacroArg], env: &VarEnv) -> String {
   args
      .iter()
      .map(|a| {
         if a.is_ident {
            a.ident.clone()
         } else {
            match a.expr.as_ref().unwrap() {
               Expr::Var(x) if x.starts_with("$$") => x[1..].to_string(),
               Expr::Var(x) => x.clone(),
               e => pe(e, env),
            }
         }
      })
      .collect::<Vec<_>>()
      .join(", ")
}

/// Prints body items, threading the variable environment.
pub fn p_items(items: &[BodyItem], prog: &Program, env: &mut VarEnv, in_macro: bool) -> String {
   let mut parts: Vec<String> = vec![];
   for it in items {
      let s = match it {
         BodyItem::Clause { rel, args, conds } => {
            // arguments are printed in the environment that includes the variables of this clause
            // bound to the left of them (expression arguments may mention them)
            let mut e2 = env.clone();
            bind_items(&[BodyItem::Clause { rel: rel.clone(), args: args.clone(), conds: vec![] }], prog, &mut e2, in_macro);
            let args_s = args.iter().map(|a| p_arg(a, &e2)).collect::<Vec<_>>().join(", ");
            let mut s = format!("{rel}({args_s})");
            for c in conds {
               write!(s, " {}", p_cond(c, &e2)).unwrap();
               bind_cond(c, &mut e2, in_macro);
            }
            s
         },
         BodyItem::Cond(c) => p_cond(c, env),
         BodyItem::For { pat, iter } => {
            let it_s = match iter {
               IterExpr::Range(lo, hi) => format!("({})..({})", pe(lo, env), pe(hi, env)),
               IterExpr::Array(es) => format!("[{}]", es.iter().map(|e| pe(e, env)).collect::<Vec<_>>().join(", ")),
               IterExpr::VecIter(es) =>
                  format!("vec![{}].iter()", es.iter().map(|e| pe(e, env)).collect::<Vec<_>>().join(", ")),
            };
            format!("for {} in {}", pp(pat), it_s)
         },
         BodyItem::Agg { pat, agg, bound, rel, args } => {
            let args_s = args.iter().map(|a| p_arg(a, env)).collect::<Vec<_>>().join(", ");
            format!("agg {} = {}({}) in {rel}({args_s})", pp(pat), p_aggregator(agg), bound.join(", "))
         },
         BodyItem::Neg { rel, args } => {
            let args_s = args.iter().map(|a| p_arg(a, env)).collect::<Vec<_>>().join(", ");
            format!("!{rel}({args_s})")
         },
         BodyItem::Disj(ds) => {
            let mut alts = vec![];
            for d in ds {
               let mut e = env.clone();
               // a disjunct that ends in an expression (`if c`, `let x = e`, `for x in e`, attached conditions) would
               // swallow the following `|` as a binary operator: such a last item is written `(item)`, a
               // one-disjunct disjunction, as in the repository's own tests
               let ends_in_expr = match d.last() {
                  Some(BodyItem::Cond(_)) | Some(BodyItem::For { .. }) => true,
                  Some(BodyItem::Clause { conds, .. }) => !conds.is_empty(),
                  _ => false,
               };
               if ends_in_expr {
                  let (init, last) = d.split_at(d.len() - 1);
                  let mut parts = vec![];
                  if !init.is_empty() {
                     parts.push(p_items(init, prog, &mut e, in_macro));
                  }
                  parts.push(format!("({})", p_items(last, prog, &mut e, in_macro)));
                  alts.push(parts.join(", "));
               } else {
                  alts.push(p_items(d, prog, &mut e, in_macro));
               }
            }
            format!("({})", alts.join(" | "))
         },
         BodyItem::MacroCall { name, args } => format!("{name}!({})", p_macro_args(args, env)),
      };
      bind_items(std::slice::from_ref(it), prog, env, in_macro);
      parts.push(s);
   }
   parts.join(", ")
}

pub fn p_heads(heads: &[HeadItem], env: &VarEnv) -> String {
   heads
      .iter()
      .map(|h| match h {
         HeadItem::Clause { rel, args } => {
            let a = args
               .iter()
               .map(|e| match e {
                  Expr::Var(x) if x.starts_with("$$") => x[1..].to_string(),
                  Expr::Var(x) if x.starts_with('$') => x.clone(),
                  // a by-value variable of a non-Copy type would be moved out of the rule closure
                  Expr::Var(x) if env.get(x).map_or(false, |i| (!i.is_ref || i.unknown_ref) && !i.ty.is_copy()) =>
                     format!("{x}.clone()"),
                  Expr::Var(x) => x.clone(),
                  e => pe(e, env),
               })
               .collect::<Vec<_>>()
               .join(", ");
            format!("{rel}({a})")
         },
         HeadItem::MacroCall { name, args } => {
            // an expression argument of a head macro may be used by several head clauses of the expansion: a by-value
            // variable of a non-Copy type is passed as `x.clone()`, as a user has to write it
            let a = args
               .iter()
               .map(|a| match a.expr.as_ref() {
                  Some(Expr::Var(x)) if !a.is_ident && env.get(x).map_or(false, |i| (!i.is_ref || i.unknown_ref) && !i.ty.is_copy()) =>
                     format!("{x}.clone()"),
                  _ => p_macro_args(std::slice::from_ref(a), env),
               })
               .collect::<Vec<_>>()
               .join(", ");
            format!("{name}!({a})")
         },
      })
      .collect::<Vec<_>>()
      .join(", ")
}

pub fn p_rule(rule: &Rule, prog: &Program) -> String {
   let mut env = VarEnv::new();
   let body = p_items(&rule.body, prog, &mut env, false);
   let heads = p_heads(&rule.heads, &env);
   if rule.body.is_empty() { format!("{heads};") } else { format!("{heads} <-- {body};") }
}

pub fn p_decl(r: &RelDecl) -> String { p_decl_init(r, None) }

pub fn p_decl_init(r: &RelDecl, init: Option<&str>) -> String {
   let kw = if r.is_lattice { "lattice" } else { "relation" };
   let cols = r.cols.iter().map(|t| t.rust()).collect::<Vec<_>>().join(", ");
   let ds = match r.ds {
      None => String::new(),
      Some(Ds::EqRel) => "#[ds(::ascent_byods_rels::eqrel)] ".into(),
      Some(Ds::TrRel) => "#[ds(::ascent_byods_rels::trrel)] ".into(),
      Some(Ds::TrRelUf) => "#[ds(::ascent_byods_rels::trrel_uf)] ".into(),
   };
   match init {
      None => format!("{ds}{kw} {}({cols});", r.name),
      Some(e) => format!("{ds}{kw} {}({cols}) = {e};", r.name),
   }
}

pub fn p_macro_def(m: &MacroDef, prog: &Program) -> String {
   let params = m
      .params
      .iter()
      .map(|p| format!("${}: {}", p.name, if p.is_ident { "ident" } else { "expr" }))
      .collect::<Vec<_>>()
      .join(", ");
   let body = if m.is_head {
      // head macros only mention parameters
      let mut env = VarEnv::new();
      for p in &m.params {
         let key = if p.is_ident { format!("${}", p.name) } else { format!("$${}", p.name) };
         env.insert(key, VarInfo { ty: p.ty, is_ref: false, unknown_ref: true });
      }
      p_heads(&m.head, &env)
   } else {
      let mut env = VarEnv::new();
      for p in &m.params {
         let key = if p.is_ident { format!("${}", p.name) } else { format!("$${}", p.name) };
         env.insert(key, VarInfo { ty: p.ty, is_ref: false, unknown_ref: true });
      }
      p_items(&m.body, prog, &mut env, true)
   };
   format!("macro {}({params}) {{ {body}{} }}", m.name, if m.trailing_comma { "," } else { "" })
}

#[derive(Clone, Copy, Debug, PartialEq, Eq, serde::Serialize, serde::Deserialize)]
pub enum Kind {
   Ascent,
   AscentPar,
   AscentRun,
   AscentRunPar,
}

impl Kind {
   pub fn is_par(self) -> bool { matches!(self, Kind::AscentPar | Kind::AscentRunPar) }
   pub fn is_run(self) -> bool { matches!(self, Kind::AscentRun | Kind::AscentRunPar) }
   pub fn macro_name(self) -> &'static str {
      match self {
         Kind::Ascent => "ascent",
         Kind::AscentPar => "ascent_par",
         Kind::AscentRun => "ascent_run",
         Kind::AscentRunPar => "ascent_run_par",
      }
   }
}

#[derive(Clone, Debug, serde::Serialize, serde::Deserialize)]
pub struct PrintOpts {
   pub kind: Kind,
   /// program attributes, e.g. "inter_rule_parallelism", "measure_rule_times", "generate_run_timeout"
   pub attrs: Vec<String>,
   /// generic struct signature `struct P<T: ..>` with i32 columns spelled T and instantiated at i32
   pub generic: bool,
   /// split the program text: items[..cut.0] before, include of items[cut.0..cut.1], rest after
   pub include_cut: Option<(usize, usize)>,
   /// relations (by name) initialised with `= expr` instead of being loaded by the harness
   pub init_rels: Vec<String>,
   /// emit a decoy earlier declaration (different initialiser) for these relations: last one must win
   pub redeclare: Vec<String>,
   /// relations that get an earlier declaration WITH a (decoy) initialiser and a final declaration WITHOUT one
   #[serde(default)]
   pub redeclare_noinit: Vec<String>,
   /// write the default provider out on plain relations (`#[ds(ascent::rel)] relation r(..);`)
   #[serde(default)]
   pub explicit_default_ds: bool,
   /// the provider of the BYODS relations comes from a program-wide `#![ds(..)]` (listed in `attrs`), not from an
   /// attribute on the relation
   #[serde(default)]
   pub program_ds: bool,
   /// another attribute in front of the `#[ds(..)]` of a BYODS relation (`#[doc = ".."] #[ds(..)] relation r(..)`)
   #[serde(default)]
   pub doc_before_ds: bool,
}

impl PrintOpts {
   pub fn plain(kind: Kind) -> Self {
      PrintOpts { kind, attrs: vec![], generic: false, include_cut: None, init_rels: vec![], redeclare: vec![], redeclare_noinit: vec![], explicit_default_ds: false, program_ds: false, doc_before_ds: false }
   }
   pub fn has_attr(&self, a: &str) -> bool { self.attrs.iter().any(|x| x == a) }
}

/// The items of the program body (declarations, macro definitions, rules) as separate strings.
pub fn program_items(prog: &Program) -> Vec<String> { program_items_opts(prog, None) }

/// `opts`: packaging (initialised relations, decoy re-declarations)
pub fn program_items_opts(prog: &Program, opts: Option<&PrintOpts>) -> Vec<String> {
   let mut items = vec![];
   for r in &prog.rels {
      let before = items.len();
      let explicit = opts.map_or(false, |o| o.explicit_default_ds) && r.ds.is_none() && !r.is_lattice;
      program_items_decl(r, opts, &mut items);
      if explicit {
         for it in items[before..].iter_mut() {
            *it = format!("#[ds(ascent::rel)] {it}");
         }
      }
      if opts.map_or(false, |o| o.doc_before_ds && !o.program_ds) && r.ds.is_some() {
         for it in items[before..].iter_mut() {
            *it = format!("#[doc = \"tagged relation\"] {it}");
         }
      }
      if opts.map_or(false, |o| o.program_ds) && r.ds.is_some() {
         for it in items[before..].iter_mut() {
            if let Some(end) = it.find(")] ") {
               if it.starts_with("#[ds(") {
                  *it = it[end + 3..].to_string();
               }
            }
         }
      }
   }
   for m in &prog.macros {
      items.push(p_macro_def(m, prog));
   }
   for r in &prog.rules {
      items.push(p_rule(r, prog));
   }
   items
}

fn program_items_decl(r: &RelDecl, opts: Option<&PrintOpts>, items: &mut Vec<String>) {
   {
      if let Some(o) = opts {
         let init_expr = |key: &str| -> String {
            if o.kind.is_run() {
               // captured local
               format!("::core::iter::FromIterator::from_iter({key}.clone())")
            } else {
               format!("::vglue::pending_rows({key:?})")
            }
         };
         if o.redeclare.contains(&r.name) {
            // an earlier declaration of the same relation with another initialiser: the later one must win
            let key = if o.kind.is_run() { format!("decoy_{}", r.name) } else { format!("{}#decoy", r.name) };
            items.push(p_decl_init(r, Some(&init_expr(&key))));
         }
         if o.init_rels.contains(&r.name) {
            let key = if o.kind.is_run() { format!("in_{}", r.name) } else { r.name.clone() };
            items.push(p_decl_init(r, Some(&init_expr(&key))));
            return;
         }
         if o.redeclare_noinit.contains(&r.name) {
            // an earlier declaration with an initialiser, then the plain declaration: nothing of the initialiser may survive
            let key = if o.kind.is_run() { format!("decoy_{}", r.name) } else { format!("{}#decoy", r.name) };
            items.push(p_decl_init(r, Some(&init_expr(&key))));
         }
      }
      items.push(p_decl(r));
   }
}

fn tuple_of(cols: &[Ty], f: impl Fn(usize, Ty) -> String) -> String {
   match cols.len() {
      0 => "()".into(),
      1 => format!("({},)", f(0, cols[0])),
      _ => format!("({})", cols.iter().enumerate().map(|(i, t)| f(i, *t)).collect::<Vec<_>>().join(", ")),
   }
}

/// Relations the harness can load and read through their struct field (BYODS relations have a FakeVec).
pub fn field_rels(prog: &Program) -> Vec<&RelDecl> {
   let mut seen = std::collections::BTreeSet::new();
   let mut out = vec![];
   for r in prog.rels.iter().rev() {
      if seen.insert(r.name.clone()) && r.ds.is_none() {
         out.push(r);
      }
   }
   out.reverse();
   out
}

/// One module: the Ascent program (macro kind per `opts`) plus glue implementing `vrunner::Prog`.
pub fn print_module(mod_name: &str, prog: &Program, opts: &PrintOpts, ast_json: &str, meta_json: &str) -> String {
   let opts_json = serde_json_lite(opts);
   let mut s = String::new();
   let par = opts.kind.is_par();
   writeln!(s, "pub mod {mod_name} {{").unwrap();
   writeln!(s, "   #![allow(warnings)]").unwrap();
   let items = program_items_opts(prog, Some(opts));
   let attrs: String = opts.attrs.iter().map(|a| format!("      #![{a}]\n")).collect();
   let mac = opts.kind.macro_name();

   // optional ascent_source! module
   let (before, included, after): (Vec<String>, Vec<String>, Vec<String>) = match opts.include_cut {
      Some((a, b)) => (items[..a].to_vec(), items[a..b].to_vec(), items[b..].to_vec()),
      None => (items.clone(), vec![], vec![]),
   };
   if opts.include_cut.is_some() {
      writeln!(s, "   pub mod src {{").unwrap();
      writeln!(s, "      ::ascent::ascent_source! {{ {mod_name}_part:").unwrap();
      for it in &included {
         writeln!(s, "         {it}").unwrap();
      }
      writeln!(s, "      }}").unwrap();
      writeln!(s, "   }}").unwrap();
   }
   // generic signature: the program type gets a type parameter (with the bounds relations need) that one extra pair of
   // relations uses; the harness works with the instance at u8 under the usual name
   let generic = opts.generic && !opts.kind.is_run();
   let struct_sig = if generic {
      "pub struct PG<TG> where TG: Clone + ::std::cmp::Eq + ::std::hash::Hash + Sync + Send;"
   } else {
      "pub struct P;"
   };
   let body_text = {
      let mut b = String::new();
      for it in &before {
         writeln!(b, "      {it}").unwrap();
      }
      if opts.include_cut.is_some() {
         writeln!(b, "      include_source!(src::{mod_name}_part);").unwrap();
      }
      for it in &after {
         writeln!(b, "      {it}").unwrap();
      }
      if generic {
         writeln!(b, "      relation zgen(TG);").unwrap();
         writeln!(b, "      relation zgen2(TG, TG);").unwrap();
         writeln!(b, "      zgen2(x, y) <-- zgen(x), zgen(y);").unwrap();
      }
      b
   };
   let rels = field_rels(prog);

   if !opts.kind.is_run() {
      writeln!(s, "   ::ascent::{mac}! {{").unwrap();
      write!(s, "{attrs}").unwrap();
      writeln!(s, "      {struct_sig}").unwrap();
      write!(s, "{body_text}").unwrap();
      writeln!(s, "   }}").unwrap();
      if generic {
         writeln!(s, "   pub type P = PG<u8>;").unwrap();
      }
      if !opts.init_rels.is_empty() || !opts.redeclare_noinit.is_empty() {
         // deferred construction: the initialisers run inside `P::default()`, so the rows must be known by then
         writeln!(s, "   pub struct G {{ pub pending: ::vglue::Db, pub p: Option<P> }}").unwrap();
         writeln!(s, "   impl ::vglue::Prog for G {{").unwrap();
         writeln!(s, "      fn load(&mut self, rel: &str, rows: &[::vglue::Row]) {{").unwrap();
         writeln!(s, "         self.pending.rels.entry(rel.to_string()).or_default().extend(rows.iter().cloned());").unwrap();
         writeln!(s, "      }}").unwrap();
         writeln!(s, "      fn run(&mut self) {{").unwrap();
         writeln!(s, "         let init: &[&str] = &[{}];", opts.init_rels.iter().map(|n| format!("{n:?}")).collect::<Vec<_>>().join(", ")).unwrap();
         writeln!(s, "         ::vglue::set_pending(&self.pending, init);").unwrap();
         writeln!(s, "         ::vglue::add_pending_decoys(&self.pending, &[{}]);", opts.redeclare_noinit.iter().map(|n| format!("{n:?}")).collect::<Vec<_>>().join(", ")).unwrap();
         writeln!(s, "         let mut p = P::default();").unwrap();
         writeln!(s, "         ::vglue::clear_pending();").unwrap();
         writeln!(s, "         for (rel, rows) in &self.pending.rels {{").unwrap();
         writeln!(s, "            if init.contains(&rel.as_str()) {{ continue; }}").unwrap();
         writeln!(s, "            match rel.as_str() {{").unwrap();
         for r in &rels {
            let tup = tuple_of(&r.cols, |i, _| format!("::vglue::cv(&r[{i}])"));
            let val = if par && r.is_lattice { format!("::std::sync::RwLock::new({tup})") } else { tup };
            writeln!(s, "               {:?} => for r in rows {{ p.{}.push({val}); }},", r.name, r.name).unwrap();
         }
         writeln!(s, "               other => panic!(\"load: unknown relation {{}}\", other),").unwrap();
         writeln!(s, "            }}").unwrap();
         writeln!(s, "         }}").unwrap();
         writeln!(s, "         p.run();").unwrap();
         writeln!(s, "         self.p = Some(p);").unwrap();
         writeln!(s, "      }}").unwrap();
         writeln!(s, "      fn dump(&self) -> ::vglue::Db {{ let p = self.p.as_ref().expect(\"run first\"); {} }}", dump_body(&rels, par, "p")).unwrap();
         writeln!(s, "      fn scc_summary(&self) -> String {{ self.p.as_ref().map(|p| p.scc_times_summary()).unwrap_or_default() }}").unwrap();
         writeln!(s, "      fn sizes_summary(&self) -> String {{ String::new() }}").unwrap();
         writeln!(s, "   }}").unwrap();
         writeln!(s, "   pub fn new() -> Box<dyn ::vglue::Prog> {{ Box::new(G {{ pending: Default::default(), p: None }}) }}").unwrap();
         writeln!(s, "   pub fn summary() -> &'static str {{ P::summary() }}").unwrap();
      } else {
      // glue
      writeln!(s, "   pub struct G(pub P);").unwrap();
      writeln!(s, "   impl ::vglue::Prog for G {{").unwrap();
      writeln!(s, "      fn load(&mut self, rel: &str, rows: &[::vglue::Row]) {{").unwrap();
      writeln!(s, "         match rel {{").unwrap();
      for r in &rels {
         let tup = tuple_of(&r.cols, |i, _| format!("::vglue::cv(&r[{i}])"));
         let val = if par && r.is_lattice { format!("::std::sync::RwLock::new({tup})") } else { tup };
         writeln!(s, "            {:?} => for r in rows {{ self.0.{}.push({val}); }},", r.name, r.name).unwrap();
      }
      writeln!(s, "            other => panic!(\"load: unknown relation {{}}\", other),").unwrap();
      writeln!(s, "         }}").unwrap();
      writeln!(s, "      }}").unwrap();
      if opts.has_attr("generate_run_timeout") {
         writeln!(s, "      fn run(&mut self) {{ self.0.run(); }}").unwrap();
         writeln!(
            s,
            "      fn run_timeout(&mut self, d: ::std::time::Duration) -> Option<bool> {{ Some(self.0.run_timeout(d)) }}"
         )
         .unwrap();
      } else {
         writeln!(s, "      fn run(&mut self) {{ self.0.run(); }}").unwrap();
      }
      write!(s, "{}", dump_fn(&rels, par, "self.0")).unwrap();
      writeln!(s, "      fn scc_summary(&self) -> String {{ self.0.scc_times_summary() }}").unwrap();
      writeln!(s, "      fn sizes_summary(&self) -> String {{ self.0.relation_sizes_summary() }}").unwrap();
      writeln!(s, "   }}").unwrap();
      writeln!(s, "   pub fn new() -> Box<dyn ::vglue::Prog> {{ Box::new(G(P::default())) }}").unwrap();
      writeln!(s, "   pub fn summary() -> &'static str {{ P::summary() }}").unwrap();
      }
   } else {
      // ascent_run!: inputs are captured locals. Every input relation `r` is fed by `r(..) <-- for t in in_r.iter()`
      // or initialised by `relation r(..) = in_r;` (opts.init_rels).
      writeln!(s, "   pub struct G {{ pub input: ::vglue::Db, pub out: ::vglue::Db, pub summary: String }}").unwrap();
      writeln!(s, "   impl ::vglue::Prog for G {{").unwrap();
      writeln!(s, "      fn load(&mut self, rel: &str, rows: &[::vglue::Row]) {{").unwrap();
      writeln!(s, "         self.input.rels.entry(rel.to_string()).or_default().extend(rows.iter().cloned());").unwrap();
      writeln!(s, "      }}").unwrap();
      writeln!(s, "      fn run(&mut self) {{").unwrap();
      for r in &rels {
         let tup = tuple_of(&r.cols, |i, _| format!("::vglue::cv(&r[{i}])"));
         let ty = tuple_of(&r.cols, |_, t| t.rust().to_string());
         writeln!(
            s,
            "         let in_{n}: Vec<{ty}> = self.input.get({n:?}).iter().map(|r| {tup}).collect();",
            n = r.name
         )
         .unwrap();
      }
      for r in &rels {
         if opts.redeclare.contains(&r.name) || opts.redeclare_noinit.contains(&r.name) {
            let ty = tuple_of(&r.cols, |_, t| t.rust().to_string());
            let tup = tuple_of(&r.cols, |i, _| format!("::vglue::cv(&r[{i}])"));
            writeln!(s, "         let decoy_{n}: Vec<{ty}> = ::vglue::decoy_rows_for({n:?}, &self.input).iter().map(|r| {tup}).collect();", n = r.name).unwrap();
         }
      }
      writeln!(s, "         let res = ::ascent::{mac}! {{").unwrap();
      write!(s, "{attrs}").unwrap();
      write!(s, "{body_text}").unwrap();
      for r in &rels {
         if opts.init_rels.contains(&r.name) {
            continue;
         }
         let vars: Vec<String> = (0..r.cols.len()).map(|i| format!("c{i}")).collect();
         let pat = match vars.len() {
            0 => "()".to_string(),
            1 => format!("({},)", vars[0]),
            _ => format!("({})", vars.join(", ")),
         };
         let head_args = vars.iter().map(|v| format!("{v}.clone()")).collect::<Vec<_>>().join(", ");
         if r.is_lattice || r.cols.is_empty() {
            // handled through plain loading below is impossible for ascent_run!; generators do not
            // use lattice / nullary inputs with ascent_run! packaging
         }
         writeln!(s, "            {}({head_args}) <-- for {pat} in in_{}.iter();", r.name, r.name).unwrap();
      }
      writeln!(s, "         }};").unwrap();
      writeln!(s, "         self.summary = res.scc_times_summary();").unwrap();
      writeln!(s, "         let p = &res;").unwrap();
      writeln!(s, "         self.out = {{ {} }};", dump_body(&rels, par, "p")).unwrap();
      writeln!(s, "      }}").unwrap();
      writeln!(s, "      fn dump(&self) -> ::vglue::Db {{ self.out.clone() }}").unwrap();
      writeln!(s, "      fn scc_summary(&self) -> String {{ self.summary.clone() }}").unwrap();
      writeln!(s, "      fn sizes_summary(&self) -> String {{ String::new() }}").unwrap();
      writeln!(s, "   }}").unwrap();
      writeln!(
         s,
         "   pub fn new() -> Box<dyn ::vglue::Prog> {{ Box::new(G {{ input: Default::default(), out: Default::default(), summary: String::new() }}) }}"
      )
      .unwrap();
      writeln!(s, "   pub fn summary() -> &'static str {{ \"\" }}").unwrap();
   }
   writeln!(s, "   pub const AST: &str = r########\"{ast_json}\"########;").unwrap();
   writeln!(s, "   pub const META: &str = r########\"{meta_json}\"########;").unwrap();
   writeln!(s, "   pub const OPTS: &str = r########\"{opts_json}\"########;").unwrap();
   writeln!(s, "}}").unwrap();
   s
}

fn dump_body(rels: &[&RelDecl], par: bool, this: &str) -> String {
   let mut s = String::new();
   write!(s, "let mut db = ::vglue::Db::default(); ").unwrap();
   for r in rels {
      let row = format!(
         "vec![{}]",
         (0..r.cols.len()).map(|i| format!("::vglue::vc(&t.{i})")).collect::<Vec<_>>().join(", ")
      );
      let it = if par {
         if r.is_lattice {
            format!("{this}.{}.iter().map(|t| {{ let t = t.read().unwrap(); {row} }})", r.name)
         } else {
            format!("{this}.{}.iter().map(|t| {row})", r.name)
         }
      } else {
         format!("{this}.{}.iter().map(|t| {row})", r.name)
      };
      write!(s, "db.rels.insert({:?}.to_string(), {it}.collect()); ", r.name).unwrap();
   }
   write!(s, "db").unwrap();
   s
}

fn dump_fn(rels: &[&RelDecl], par: bool, this: &str) -> String {
   format!("      fn dump(&self) -> ::vglue::Db {{ {} }}\n", dump_body(rels, par, this))
}

/// Plain program text (for replay files / samples).
pub fn program_text(prog: &Program, opts: &PrintOpts) -> String {
   let mut s = String::new();
   writeln!(s, "{}! {{", opts.kind.macro_name()).unwrap();
   for a in &opts.attrs {
      writeln!(s, "   #![{a}]").unwrap();
   }
   for it in program_items_opts(prog, Some(opts)) {
      writeln!(s, "   {it}").unwrap();
   }
   writeln!(s, "}}").unwrap();
   s
}

fn serde_json_lite(opts: &PrintOpts) -> String {
   // PrintOpts only holds strings, booleans and small integers; rendered by hand to keep vcore free of serde_json
   let strs = |v: &Vec<String>| format!("[{}]", v.iter().map(|s| format!("{s:?}")).collect::<Vec<_>>().join(","));
   format!(
      "{{\"kind\":\"{:?}\",\"attrs\":{},\"generic\":{},\"include_cut\":{},\"init_rels\":{},\"redeclare\":{},\"redeclare_noinit\":{},\"explicit_default_ds\":{},\"program_ds\":{},\"doc_before_ds\":{}}}",
      opts.kind,
      strs(&opts.attrs),
      opts.generic,
      match opts.include_cut {
         None => "null".to_string(),
         Some((a, b)) => format!("[{a},{b}]"),
      },
      strs(&opts.init_rels),
      strs(&opts.redeclare),
      strs(&opts.redeclare_noinit),
      opts.explicit_default_ds,
      opts.program_ds,
      opts.doc_before_ds
   )
}
