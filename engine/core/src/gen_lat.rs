//! Generator of programs with lattice relations that use lattice values monotonically only (C03's premise):
//! lattice heads are monotone functions of the lattice values read; plain relations are derived from lattice
//! values of the same stratum only through upward-closed tests; arbitrary reads happen in later strata.

use crate::ast::*;
use crate::gen::{GenCfg, NamePool, REL_POOL};
use crate::rng::Src;

pub const LAT_TYPES: [Ty; 12] = [
   Ty::I32,
   Ty::U32,
   Ty::Bool,
   Ty::DualU32,
   Ty::OptU32,
   Ty::SetU8,
   Ty::BSetU8,
   Ty::CPropU8,
   Ty::PairU32,
   Ty::ProdU32DualU32,
   Ty::PairDualU32,
   Ty::DualSetU8,
];

const CAP: i64 = 12;

fn var(x: &str) -> Expr { Expr::Var(x.to_string()) }
fn bx(e: Expr) -> Box<Expr> { Box::new(e) }
fn u32c(i: i64) -> Expr { Expr::Int(i, Ty::U32) }

/// lattice value built from a u32 expression `w`
fn mk_value<R: Src>(r: &mut R, vt: Ty, w: Expr) -> Expr {
   let small = |w: Expr, m: i64| Expr::Cast(bx(Expr::AddMod(bx(w), 0, m)), Ty::U8);
   match vt {
      Ty::U32 => w,
      Ty::I32 => Expr::Cast(bx(w), Ty::I32),
      Ty::Bool => Expr::Cmp(CmpOp::Le, bx(u32c(r.range(1, 4))), bx(w)),
      Ty::DualU32 => Expr::DualOf(bx(w)),
      Ty::OptU32 => if r.chance(85) { Expr::Some_(bx(w)) } else { Expr::None_(Ty::OptU32) },
      Ty::SetU8 => Expr::SetSingle(bx(small(w, 4))),
      Ty::BSetU8 => Expr::BSetSingle(bx(small(w, 5))),
      Ty::CPropU8 =>
         if r.chance(85) { Expr::CConst(bx(small(w, 3))) } else if r.chance(50) { Expr::CTop } else { Expr::CBot },
      Ty::PairU32 => Expr::Tup(vec![Expr::AddMod(bx(w.clone()), 0, 3), Expr::AddMod(bx(w), 1, 4)]),
      Ty::ProdU32DualU32 => Expr::ProdOf(bx(Expr::AddMod(bx(w.clone()), 0, 5)), bx(Expr::AddMod(bx(w), 2, 7))),
      Ty::PairDualU32 => Expr::Tup(vec![Expr::DualOf(bx(Expr::AddMod(bx(w.clone()), 0, 4))), Expr::AddMod(bx(w), 1, 3)]),
      // two- or three-element sets, so that intersections stay informative
      Ty::DualSetU8 => Expr::DualOf(bx(Expr::SetUnion(
         bx(Expr::SetUnion(bx(Expr::SetSingle(bx(small(w.clone(), 4)))), bx(Expr::SetSingle(bx(Expr::Cast(bx(Expr::AddMod(bx(w.clone()), 1, 4)), Ty::U8)))))),
         bx(Expr::SetSingle(bx(Expr::Cast(bx(Expr::AddMod(bx(w), 2, 5)), Ty::U8)))),
      ))),
      t => panic!("not a lattice value type: {t:?}"),
   }
}

/// How a rule reads a lattice value: the clause argument, plus the expression that denotes the value (`whole`)
/// and, where a destructuring pattern is used, the inner number.
struct Read {
   arg: Arg,
   whole: Option<Expr>,
   inner: Option<Expr>,
}

fn read_value<R: Src>(r: &mut R, vt: Ty, names: &mut NamePool) -> Read {
   let v = names.fresh();
   match vt {
      Ty::DualU32 if r.chance(60) => {
         Read { arg: Arg::Pat(Pat::Dual(Box::new(Pat::Var(v.clone())))), whole: None, inner: Some(var(&v)) }
      },
      Ty::DualU32 => Read { arg: Arg::Var(v.clone()), whole: Some(var(&v)), inner: Some(Expr::UnDual(bx(var(&v)))) },
      Ty::OptU32 if r.chance(50) => {
         Read { arg: Arg::Pat(Pat::Some_(Box::new(Pat::Var(v.clone())))), whole: None, inner: Some(var(&v)) }
      },
      _ => Read { arg: Arg::Var(v.clone()), whole: Some(var(&v)), inner: None },
   }
}

/// monotone function of the value read (and optionally of a u32 weight)
fn step<R: Src>(r: &mut R, vt: Ty, rd: &Read, w: Option<Expr>) -> Expr {
   let w = w.unwrap_or_else(|| u32c(r.range(0, 3)));
   match vt {
      Ty::U32 => {
         let v = rd.whole.clone().unwrap();
         match r.below(3) {
            0 => Expr::SatAdd(bx(v), bx(w), CAP),
            1 => Expr::Max(bx(v), bx(w)),
            _ => Expr::Min(bx(v), bx(u32c(r.range(2, CAP)))),
         }
      },
      Ty::I32 => {
         let v = rd.whole.clone().unwrap();
         match r.below(2) {
            0 => Expr::SatAdd(bx(v), bx(Expr::Cast(bx(w), Ty::I32)), CAP),
            _ => Expr::Max(bx(v), bx(Expr::Int(r.range(0, 5), Ty::I32))),
         }
      },
      Ty::Bool => {
         let v = rd.whole.clone().unwrap();
         if r.chance(50) { v } else { Expr::Or(bx(v), bx(Expr::Cmp(CmpOp::Le, bx(u32c(3)), bx(w)))) }
      },
      Ty::DualU32 => Expr::DualOf(bx(Expr::SatAdd(bx(rd.inner.clone().unwrap()), bx(w), CAP))),
      Ty::OptU32 => match (&rd.inner, &rd.whole) {
         (Some(u), _) => Expr::Some_(bx(Expr::SatAdd(bx(u.clone()), bx(w), CAP))),
         (None, Some(v)) => v.clone(),
         _ => unreachable!(),
      },
      Ty::SetU8 => {
         let v = rd.whole.clone().unwrap();
         if r.chance(50) {
            v
         } else {
            Expr::SetUnion(bx(v), bx(Expr::SetSingle(bx(Expr::Cast(bx(Expr::AddMod(bx(w), 1, 4)), Ty::U8)))))
         }
      },
      Ty::BSetU8 | Ty::CPropU8 | Ty::ProdU32DualU32 | Ty::PairDualU32 => rd.whole.clone().unwrap(),
      Ty::DualSetU8 => {
         let v = rd.whole.clone().unwrap();
         if r.chance(50) {
            v
         } else {
            // A >= B (as sets) implies A + C >= B + C: monotone in the reversed order too
            Expr::DualOf(bx(Expr::SetUnion(bx(Expr::UnDual(bx(v))), bx(Expr::SetSingle(bx(Expr::Cast(bx(Expr::AddMod(bx(w), 1, 4)), Ty::U8)))))))
         }
      },
      Ty::PairU32 => {
         let v = rd.whole.clone().unwrap();
         if r.chance(60) {
            v
         } else {
            // (a, b) -> (min(a + 1, 4), 0) is monotone for the lexicographic order; keeping `b` would not be
            // (the cap makes (3, 5) < (4, 0) map to (4, 5) > (4, 0))
            Expr::Tup(vec![Expr::SatAdd(bx(Expr::Proj(bx(v), 0)), bx(u32c(1)), 4), u32c(0)])
         }
      },
      t => panic!("not a lattice value type: {t:?}"),
   }
}

/// monotone combination of two values read from lattices of the same type
fn step2(vt: Ty, a: &Read, b: &Read) -> Expr {
   match vt {
      Ty::U32 | Ty::I32 => Expr::SatAdd(bx(a.whole.clone().unwrap()), bx(b.whole.clone().unwrap()), CAP),
      Ty::Bool => Expr::And(bx(a.whole.clone().unwrap()), bx(b.whole.clone().unwrap())),
      Ty::DualU32 => Expr::DualOf(bx(Expr::SatAdd(bx(a.inner.clone().unwrap()), bx(b.inner.clone().unwrap()), CAP))),
      Ty::SetU8 => Expr::SetUnion(bx(a.whole.clone().unwrap()), bx(b.whole.clone().unwrap())),
      _ => match (&a.whole, &a.inner) {
         (Some(v), _) => v.clone(),
         (None, Some(u)) => Expr::Some_(bx(u.clone())),
         _ => unreachable!(),
      },
   }
}

/// an upward-closed test on the value read, as conditions
fn threshold<R: Src>(r: &mut R, vt: Ty, rd: &Read, names: &mut NamePool) -> Vec<Cond> {
   let whole = rd.whole.clone();
   match vt {
      Ty::U32 => vec![Cond::If(Expr::Cmp(CmpOp::Le, bx(u32c(r.range(1, 8))), bx(whole.unwrap())))],
      Ty::I32 => vec![Cond::If(Expr::Cmp(CmpOp::Le, bx(Expr::Int(r.range(1, 8), Ty::I32)), bx(whole.unwrap())))],
      Ty::Bool => vec![Cond::If(whole.unwrap())],
      Ty::DualU32 => vec![Cond::If(Expr::Cmp(CmpOp::Le, bx(rd.inner.clone().unwrap()), bx(u32c(r.range(1, 9)))))],
      Ty::OptU32 => match (&rd.inner, whole) {
         (Some(u), _) => vec![Cond::If(Expr::Cmp(CmpOp::Le, bx(u32c(r.range(0, 6))), bx(u.clone())))],
         (None, Some(v)) =>
            if r.chance(50) {
               vec![Cond::If(Expr::Cmp(CmpOp::Ne, bx(v), bx(Expr::None_(Ty::OptU32))))]
            } else {
               let u = names.fresh();
               vec![
                  Cond::IfLet(Pat::Some_(Box::new(Pat::Var(u.clone()))), v),
                  Cond::If(Expr::Cmp(CmpOp::Le, bx(u32c(r.range(0, 6))), bx(var(&u)))),
               ]
            },
         _ => unreachable!(),
      },
      Ty::SetU8 =>
         if r.chance(60) {
            vec![Cond::If(Expr::SetContains(bx(whole.unwrap()), bx(Expr::Int(r.range(0, 3), Ty::U8))))]
         } else {
            vec![Cond::If(Expr::SetLenGe(bx(whole.unwrap()), r.range(1, 3)))]
         },
      Ty::BSetU8 => vec![Cond::If(Expr::SetContains(bx(whole.unwrap()), bx(Expr::Int(r.range(0, 4), Ty::U8))))],
      Ty::CPropU8 =>
         if r.chance(60) {
            vec![Cond::If(Expr::Cmp(CmpOp::Eq, bx(whole.unwrap()), bx(Expr::CTop)))]
         } else {
            vec![Cond::If(Expr::Cmp(CmpOp::Ne, bx(whole.unwrap()), bx(Expr::CBot)))]
         },
      Ty::PairU32 => vec![Cond::If(Expr::Cmp(
         CmpOp::Le,
         bx(Expr::Tup(vec![u32c(r.range(0, 2)), u32c(r.range(0, 3))])),
         bx(whole.unwrap()),
      ))],
      Ty::ProdU32DualU32 =>
         vec![Cond::If(Expr::Cmp(CmpOp::Le, bx(u32c(r.range(0, 4))), bx(Expr::ProdFst(bx(whole.unwrap())))))],
      // upward closed in the reversed order = downward closed for sets: an element is absent
      Ty::DualSetU8 => vec![Cond::If(Expr::Cmp(
         CmpOp::Eq,
         bx(Expr::SetContains(bx(Expr::UnDual(bx(whole.unwrap()))), bx(Expr::Int(r.range(0, 4), Ty::U8)))),
         bx(Expr::Bool(false)),
      ))],
      // upward closed in the lexicographic order with the first component reversed
      Ty::PairDualU32 => vec![Cond::If(Expr::Cmp(
         CmpOp::Le,
         bx(Expr::Tup(vec![Expr::DualOf(bx(u32c(r.range(0, 3)))), u32c(r.range(0, 2))])),
         bx(whole.unwrap()),
      ))],
      t => panic!("not a lattice value type: {t:?}"),
   }
}

fn clause(rel: &str, args: Vec<Arg>) -> BodyItem { BodyItem::Clause { rel: rel.to_string(), args, conds: vec![] } }
fn head(rel: &str, args: Vec<Expr>) -> HeadItem { HeadItem::Clause { rel: rel.to_string(), args } }
fn av(x: &str) -> Arg { Arg::Var(x.to_string()) }

pub struct LatInfo {
   pub name: String,
   pub n_keys: usize,
   pub vt: Ty,
}

/// Programs for C03 (and, as bases, for C02 / C05 / C13 / C14 / C20).
pub fn gen_lattice<R: Src>(r: &mut R, cfg: &GenCfg) -> Program {
   let mut prog = Program::default();
   let mut rel_names: Vec<String> = REL_POOL.iter().map(|s| s.to_string()).collect();
   r.shuffle(&mut rel_names);
   let mut next_rel = {
      let mut i = 0;
      move || {
         i += 1;
         rel_names[i - 1].clone()
      }
   };
   let k = *r.pick(&[Ty::I32, Ty::I32, Ty::I32, Ty::U32, Ty::Str]);
   let edge = next_rel();
   let seed = next_rel();
   prog.rels.push(RelDecl { name: edge.clone(), cols: vec![k, k, Ty::U32], is_lattice: false, ds: None, is_input: true });
   prog.rels.push(RelDecl { name: seed.clone(), cols: vec![k, Ty::U32], is_lattice: false, ds: None, is_input: true });
   let n_lat = if r.chance(35) { 2 } else { 1 };
   let mut lats: Vec<LatInfo> = vec![];
   for _ in 0..n_lat {
      let name = next_rel();
      let n_keys = *r.pick(&[0usize, 1, 1, 1, 1, 2, 2]);
      let vt = if !lats.is_empty() && r.chance(50) { lats[0].vt } else { *r.pick(&LAT_TYPES) };
      let mut cols = vec![k; n_keys];
      cols.push(vt);
      prog.rels.push(RelDecl { name: name.clone(), cols, is_lattice: true, ds: None, is_input: r.chance(20) });
      lats.push(LatInfo { name, n_keys, vt });
   }
   let hit = next_rel();
   prog.rels.push(RelDecl { name: hit.clone(), cols: vec![k], is_lattice: false, ds: None, is_input: r.chance(20) });

   for li in 0..lats.len() {
      let (lname, n_keys, vt) = (lats[li].name.clone(), lats[li].n_keys, lats[li].vt);
      let mut names = NamePool::new(r);
      // ---- base rules
      let n_base = r.range(1, 2);
      for _ in 0..n_base {
         let (x, y, w) = (names.fresh(), names.fresh(), names.fresh());
         let (body, keys): (Vec<BodyItem>, Vec<Expr>) = match n_keys {
            0 =>
               if r.chance(50) {
                  (vec![clause(&seed, vec![Arg::Wild, av(&w)])], vec![])
               } else {
                  (vec![clause(&edge, vec![Arg::Wild, Arg::Wild, av(&w)])], vec![])
               },
            1 =>
               if r.chance(70) {
                  (vec![clause(&seed, vec![av(&x), av(&w)])], vec![var(&x)])
               } else {
                  (vec![clause(&edge, vec![av(&x), Arg::Wild, av(&w)])], vec![var(&x)])
               },
            _ =>
               if r.chance(80) {
                  (vec![clause(&edge, vec![av(&x), av(&y), av(&w)])], vec![var(&x), var(&y)])
               } else {
                  (vec![clause(&seed, vec![av(&x), av(&w)])], vec![var(&x), var(&x)])
               },
         };
         let mut args = keys;
         args.push(mk_value(r, vt, var(&w)));
         prog.rules.push(Rule { heads: vec![head(&lname, args)], body });
      }
      // ---- recursive rules through the lattice
      let n_rec = r.weighted(&[10, 55, 35]);
      for _ in 0..n_rec {
         let (x, y, z, w) = (names.fresh(), names.fresh(), names.fresh(), names.fresh());
         let rd = read_value(r, vt, &mut names);
         let lat_first = r.chance(50);
         match n_keys {
            0 => {
               let body = vec![clause(&lname, vec![rd.arg.clone()]), clause(&edge, vec![Arg::Wild, Arg::Wild, av(&w)])];
               prog.rules.push(Rule { heads: vec![head(&lname, vec![step(r, vt, &rd, Some(var(&w)))])], body });
            },
            1 => {
               let lc = clause(&lname, vec![av(&x), rd.arg.clone()]);
               let ec = clause(&edge, vec![av(&x), av(&y), av(&w)]);
               // (every fourth rule: a guard in front, so that the lattice is the third clause of the body)
               let body = if r.chance(25) {
                  vec![clause(&seed, vec![av(&x), Arg::Wild]), ec, lc]
               } else if lat_first {
                  vec![lc, ec]
               } else {
                  vec![ec, lc]
               };
               prog.rules.push(Rule { heads: vec![head(&lname, vec![var(&y), step(r, vt, &rd, Some(var(&w)))])], body });
            },
            _ => {
               if r.chance(30) && matches!(vt, Ty::U32 | Ty::I32 | Ty::Bool | Ty::DualU32 | Ty::SetU8) {
                  // non-linear
                  let rd2 = read_value(r, vt, &mut names);
                  let (rd, rd2) = if vt == Ty::DualU32 {
                     // both reads need the inner number
                     (rd, rd2)
                  } else {
                     (force_whole(rd, &mut names), force_whole(rd2, &mut names))
                  };
                  let body = vec![
                     clause(&lname, vec![av(&x), av(&y), rd.arg.clone()]),
                     clause(&lname, vec![av(&y), av(&z), rd2.arg.clone()]),
                  ];
                  prog.rules.push(Rule { heads: vec![head(&lname, vec![var(&x), var(&z), step2(vt, &rd, &rd2)])], body });
               } else {
                  let ec = clause(&edge, vec![av(&x), av(&y), av(&w)]);
                  let lc = clause(&lname, vec![av(&y), av(&z), rd.arg.clone()]);
                  let body = if r.chance(25) {
                     vec![clause(&seed, vec![av(&x), Arg::Wild]), ec, lc]
                  } else if lat_first {
                     vec![lc, ec]
                  } else {
                     vec![ec, lc]
                  };
                  prog.rules.push(Rule {
                     heads: vec![head(&lname, vec![var(&x), var(&z), step(r, vt, &rd, Some(var(&w)))])],
                     body,
                  });
               }
            },
         }
      }
      // ---- cross-lattice rule (same value type, same key count): monotone identity / step
      if li > 0 && lats[0].vt == vt && lats[0].n_keys == n_keys && r.chance(70) {
         let rd = read_value(r, vt, &mut names);
         let ks: Vec<String> = (0..n_keys).map(|_| names.fresh()).collect();
         let mut args: Vec<Arg> = ks.iter().map(|s| av(s)).collect();
         args.push(rd.arg.clone());
         let mut hargs: Vec<Expr> = ks.iter().map(|s| var(s)).collect();
         hargs.push(step(r, vt, &rd, None));
         let (from, to) = if r.chance(50) { (lats[0].name.clone(), lname.clone()) } else { (lname.clone(), lats[0].name.clone()) };
         prog.rules.push(Rule { heads: vec![head(&to, hargs)], body: vec![clause(&from, args)] });
      }
      // ---- threshold rule into a plain relation (upward closed), optional monotone feedback
      if n_keys >= 1 && r.chance(70) {
         let rd = read_value(r, vt, &mut names);
         let ks: Vec<String> = (0..n_keys).map(|_| names.fresh()).collect();
         let mut args: Vec<Arg> = ks.iter().map(|s| av(s)).collect();
         args.push(rd.arg.clone());
         let conds = threshold(r, vt, &rd, &mut names);
         let attached = r.chance(50);
         let mut body = vec![];
         if attached {
            body.push(BodyItem::Clause { rel: lname.clone(), args, conds });
         } else {
            body.push(clause(&lname, args));
            body.extend(conds.into_iter().map(BodyItem::Cond));
         }
         prog.rules.push(Rule { heads: vec![head(&hit, vec![var(&ks[0])])], body });
         if r.chance(50) {
            // feedback: facts derived from the threshold feed the lattice again (still monotone)
            let (x, y, w) = (names.fresh(), names.fresh(), names.fresh());
            let mut hargs: Vec<Expr> = vec![var(&y); n_keys];
            hargs.push(mk_value(r, vt, var(&w)));
            prog.rules.push(Rule {
               heads: vec![head(&lname, hargs)],
               body: vec![clause(&hit, vec![av(&x)]), clause(&edge, vec![av(&x), av(&y), av(&w)])],
            });
            if r.chance(60) {
               // the plain relation (now recursive with the lattice) drives the rule and the lattice is looked up by its
               // complete key: a key's first row and the fact that asks for it can arrive in the same iteration
               let (x, y, z, w) = (names.fresh(), names.fresh(), names.fresh(), names.fresh());
               let rd = read_value(r, vt, &mut names);
               let (body, hkeys) = if n_keys == 1 {
                  (vec![clause(&hit, vec![av(&x)]), clause(&lname, vec![av(&x), rd.arg.clone()]), clause(&edge, vec![av(&x), av(&y), av(&w)])], vec![var(&y)])
               } else {
                  (
                     vec![clause(&hit, vec![av(&x)]), clause(&edge, vec![av(&x), av(&y), av(&w)]), clause(&lname, vec![av(&x), av(&y), rd.arg.clone()]), clause(&edge, vec![av(&y), av(&z), Arg::Wild])],
                     vec![var(&y), var(&z)],
                  )
               };
               let mut hargs = hkeys;
               hargs.push(step(r, vt, &rd, Some(var(&w))));
               prog.rules.push(Rule { heads: vec![head(&lname, hargs)], body });
            }
         }
      }
   }
   // ---- observers in a later stratum: arbitrary reads of the finished lattice
   for l in &lats {
      if r.chance(75) && cfg.lat_observers {
         let obs = next_rel();
         let mut cols = vec![k; l.n_keys];
         cols.push(l.vt);
         prog.rels.push(RelDecl { name: obs.clone(), cols, is_lattice: false, ds: None, is_input: false });
         let mut names = NamePool::new(r);
         let ks: Vec<String> = (0..l.n_keys).map(|_| names.fresh()).collect();
         let v = names.fresh();
         let mut args: Vec<Arg> = ks.iter().map(|s| av(s)).collect();
         args.push(av(&v));
         let mut hargs: Vec<Expr> = ks.iter().map(|s| var(s)).collect();
         hargs.push(var(&v));
         let mut body = vec![clause(&l.name, args)];
         if r.chance(30) {
            body.push(clause(&seed, vec![if l.n_keys > 0 { av(&ks[0]) } else { Arg::Wild }, Arg::Wild]));
         }
         prog.rules.push(Rule { heads: vec![head(&obs, hargs)], body });
      }
   }
   r.shuffle(&mut prog.rules);
   prog
}

fn force_whole(rd: Read, names: &mut NamePool) -> Read {
   if rd.whole.is_some() {
      rd
   } else {
      let v = names.fresh();
      Read { arg: Arg::Var(v.clone()), whole: Some(var(&v)), inner: None }
   }
}
