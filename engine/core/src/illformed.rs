//! C15: ill-formed variants of well-formed generated programs: one violation operator at a random site.

use crate::ast::*;
use crate::gen::{self, GenCfg, RuleCtx};
use crate::print::{self, Kind};
use crate::rng::Src;

pub const OPERATORS: &[&str] = &[
   "undeclared_relation",
   "wrong_arity",
   "unstratifiable_direct",
   "unstratifiable_via_second_rule",
   "rebind_let",
   "rebind_if_let",
   "rebind_for",
   "rebind_agg",
   "recursive_macro_self",
   "recursive_macro_mutual",
   "ds_on_lattice",
   "two_ds_attributes",
   "unknown_program_attribute",
   "inter_rule_parallelism_on_serial",
   "unknown_relation_attribute",
   "include_source_in_ascent_source",
];

pub struct IllCase {
   pub id: String,
   pub operator: String,
   pub site: String,
   pub kind: String,
   pub text: String,
   /// what the in-process front end must say: "reject" or "accept" (then rustc must reject)
   pub expect_inproc: &'static str,
}

fn kinds() -> [(&'static str, Kind); 4] {
   [("ascent", Kind::Ascent), ("ascent_par", Kind::AscentPar), ("ascent_run", Kind::AscentRun), ("ascent_run_par", Kind::AscentRunPar)]
}

/// positions of `name(` occurrences in `s` (token boundary before the name), with the kind of site
fn clause_sites(s: &str, name: &str) -> Vec<(usize, &'static str)> {
   let mut out = vec![];
   let pat = format!("{name}(");
   let mut from = 0;
   let arrow = s.find(" <-- ");
   while let Some(i) = s[from..].find(&pat) {
      let at = from + i;
      let before = &s[..at];
      let boundary = before.chars().last().map_or(true, |c| !(c.is_alphanumeric() || c == '_' || c == ':' || c == '$'));
      if boundary {
         let site = if before.ends_with('!') {
            "negation"
         } else if before.ends_with(" in ") {
            "aggregate"
         } else if arrow.map_or(true, |a| at < a) {
            "head"
         } else {
            "body"
         };
         out.push((at, site));
      }
      from = at + pat.len();
   }
   out
}

fn matching_paren(s: &str, open: usize) -> usize {
   let mut depth = 0i32;
   for (i, c) in s[open..].char_indices() {
      match c {
         '(' | '[' | '{' => depth += 1,
         ')' | ']' | '}' => {
            depth -= 1;
            if depth == 0 {
               return open + i;
            }
         },
         _ => {},
      }
   }
   panic!("unbalanced parens in {s}");
}

fn wildcards(n: usize) -> String { vec!["_"; n].join(", ") }

/// a variable that is bound by a plain clause argument of the rule (so that rebinding it is a genuine rebinding)
fn bound_plain_var(rule: &Rule) -> Option<String> {
   for it in &rule.body {
      if let BodyItem::Clause { args, .. } = it {
         for a in args {
            if let Arg::Var(x) = a {
               return Some(x.clone());
            }
         }
      }
   }
   None
}

fn rule_heads(rule: &Rule) -> Vec<String> { rule.head_clauses().map(|(h, _)| h.clone()).collect() }

/// One ill-formed case (and its well-formed base text) from the given source of choices; None if the drawn operator
/// does not apply to the drawn program.
pub fn one_case<R: Src>(r: &mut R, id: &str) -> Option<(IllCase, (String, String, String))> {
   let cfg = GenCfg::core();
      let prog = match r.below(4) {
         0 => gen::gen_core(r, &cfg),
         1 => crate::gen_lat::gen_lattice(r, &cfg),
         2 => gen::gen_strat(r, &cfg, false),
         _ => gen::gen_sugar(r, &cfg),
      };
      if prog.rules.is_empty() {
         return None;
      }
      let items = print::program_items(&prog);
      let n_decl = prog.rels.len();
      let (kname, kind) = kinds()[r.below(4)];
      if kind.is_par() && gen::par_rejects(&prog).is_some() {
         return None;
      }
      // the well-formed base must be accepted (converse direction, in-process pre-flight)
      let base_text = items.join("\n");
      let op = OPERATORS[r.below(OPERATORS.len())];
      // rule to damage: prefer one that is not the first
      let ri = if prog.rules.len() > 1 && r.chance(80) { 1 + r.below(prog.rules.len() - 1) } else { 0 };
      let rule = &prog.rules[ri];
      let rule_item = n_decl + prog.macros.len() + ri;
      let mut new_items = items.clone();
      let mut site = format!("rule{}", ri);
      let mut expect: &'static str = "reject";
      let mut case_kind = kname.to_string();
      let ok = match op {
         "undeclared_relation" | "wrong_arity" => {
            // all clause sites of the rule
            let mut sites: Vec<(usize, &'static str, String)> = vec![];
            for d in &prog.rels {
               for (at, s) in clause_sites(&items[rule_item], &d.name) {
                  sites.push((at, s, d.name.clone()));
               }
            }
            if sites.is_empty() {
               false
            } else {
               let (at, skind, name) = r.pick(&sites).clone();
               site = format!("rule{}:{}", ri, skind);
               let s = &items[rule_item];
               let open = at + name.len();
               let close = matching_paren(s, open);
               if op == "undeclared_relation" {
                  new_items[rule_item] = format!("{}zzq{}", &s[..at], &s[at + name.len()..]);
                  true
               } else {
                  let inner = &s[open + 1..close];
                  let arity = prog.rel(&name).cols.len();
                  if r.chance(50) || arity < 2 {
                     // one argument too many
                     let extra = if skind == "head" { "0i32" } else { "_" };
                     let sep = if inner.trim().is_empty() { "" } else { ", " };
                     new_items[rule_item] = format!("{}{}{}{}{}", &s[..close], sep, extra, "", &s[close..]);
                     true
                  } else {
                     // drop the last top-level argument
                     let mut depth = 0;
                     let mut last_comma = None;
                     for (j, c) in inner.char_indices() {
                        match c {
                           '(' | '[' | '{' => depth += 1,
                           ')' | ']' | '}' => depth -= 1,
                           ',' if depth == 0 => last_comma = Some(j),
                           _ => {},
                        }
                     }
                     match last_comma {
                        Some(j) => {
                           new_items[rule_item] = format!("{}{}{}", &s[..open + 1], &inner[..j], &s[close..]);
                           true
                        },
                        None => false,
                     }
                  }
               }
            }
         },
         "unstratifiable_direct" => {
            let hs = rule_heads(rule);
            if hs.is_empty() || rule.body.is_empty() {
               false
            } else {
               let h = r.pick(&hs).clone();
               let ar = prog.rel(&h).cols.len();
               let s = items[rule_item].trim_end_matches(';').to_string();
               let add = if r.chance(50) {
                  site = format!("rule{}:negation", ri);
                  format!(", !{h}({})", wildcards(ar))
               } else {
                  site = format!("rule{}:aggregate", ri);
                  format!(", agg cq = ::ascent::aggregators::count() in {h}({})", wildcards(ar))
               };
               new_items[rule_item] = format!("{s}{add};");
               true
            }
         },
         "unstratifiable_via_second_rule" => {
            let hs = rule_heads(rule);
            let others: Vec<&RelDecl> = prog.rels.iter().filter(|d| !hs.contains(&d.name) && !d.is_lattice && d.ds.is_none()).collect();
            if hs.is_empty() || rule.body.is_empty() || others.is_empty() {
               false
            } else {
               let h = r.pick(&hs).clone();
               let g = (*r.pick(&others)).clone();
               let s = items[rule_item].trim_end_matches(';').to_string();
               new_items[rule_item] = format!("{s}, !{}({});", g.name, wildcards(g.cols.len()));
               // g depends on h through a second rule, closing the cycle through the negation
               let ctx = RuleCtx::new(r, &prog, &cfg);
               let consts: Vec<String> = g.cols.iter().map(|t| print::pe(&ctx.const_of(r, *t), &Default::default())).collect();
               drop(ctx);
               new_items.push(format!("{}({}) <-- {h}({});", g.name, consts.join(", "), wildcards(prog.rel(&h).cols.len())));
               site = format!("rule{}:negation+rule{}", ri, prog.rules.len());
               true
            }
         },
         "rebind_let" | "rebind_if_let" | "rebind_for" | "rebind_agg" => match bound_plain_var(rule) {
            None => false,
            Some(x) => {
               let s = items[rule_item].trim_end_matches(';').to_string();
               // the rebinding pattern is a plain identifier / constructor pattern, or one of the compound forms (tuple,
               // or-pattern, at-binding, reference) in which the binder is nested
               let form = r.below(5);
               let pat = |x: &str| match form {
                  0 => x.to_string(),
                  1 => format!("({x}, _)"),
                  2 => format!("({x}, _) | (_, {x})"),
                  3 => format!("{x} @ (_, _)"),
                  _ => format!("(_, {x})"),
               };
               let tuple_val = "(1i32, 2i32)";
               let add = match op {
                  "rebind_let" if form == 0 => format!(", let {x} = 1i32"),
                  "rebind_let" => format!(", let {} = {tuple_val}", pat(&x)),
                  "rebind_if_let" if form == 0 => format!(", if let Some({x}) = Some(1i32)"),
                  "rebind_if_let" if form == 2 => format!(", if let Ok({x}) | Err({x}) = Ok::<i32, i32>(1i32)"),
                  "rebind_if_let" => format!(", if let Some({}) = Some({tuple_val})", pat(&x)),
                  "rebind_for" if form == 0 => format!(", for {x} in 0i32..2i32"),
                  "rebind_for" => format!(", for {} in [{tuple_val}]", pat(&x)),
                  _ => {
                     let d = &prog.rels[0];
                     format!(", agg {x} = ::ascent::aggregators::count() in {}({})", d.name, wildcards(d.cols.len()))
                  },
               };
               new_items[rule_item] = format!("{s}{add};");
               if op != "rebind_agg" {
                  site = format!("{site}:{}", ["plain", "tuple", "or_pattern", "at_binding", "tuple_second"][form]);
               }
               true
            },
         },
         "recursive_macro_self" | "recursive_macro_mutual" => match bound_plain_var(rule) {
            None => false,
            Some(x) => {
               let s = items[rule_item].trim_end_matches(';').to_string();
               // the self reference sits directly in the body, behind a base case inside a disjunction, or after
               // another item of a disjunct (the depth guard must also hold across parenthesised disjunctions)
               // ... or twice (the rejection must not depend on expanding both branches to the depth limit first)
               let form = r.below(if op == "recursive_macro_self" { 7 } else { 6 });
               let wrap = |call: &str| match form {
                  0 => call.to_string(),
                  1 => format!("((if true) | {call})"),
                  2 => format!("((if true) | (if true), {call})"),
                  3 => format!("{call}, {call}"),
                  4 => format!("({call}, {call})"),
                  _ => format!("((if true) | {call}, {call})"),
               };
               if op == "recursive_macro_self" && form == 6 {
                  // a head macro that invokes itself twice
                  new_items.insert(n_decl, "macro selfh($x: ident) { selfh!($x), selfh!($x) }".into());
                  new_items[rule_item + 1] = format!("selfh!({x}), {s};");
               } else if op == "recursive_macro_self" {
                  new_items.insert(n_decl, format!("macro selfm($x: ident) {{ {} }}", wrap("selfm!($x)")));
                  new_items[rule_item + 1] = format!("{s}, selfm!({x});");
               } else {
                  new_items.insert(n_decl, format!("macro mutb($x: ident) {{ {} }}", wrap("muta!($x)")));
                  new_items.insert(n_decl, "macro muta($x: ident) { mutb!($x) }".into());
                  new_items[rule_item + 2] = format!("{s}, muta!({x});");
               }
               site = format!("{site}:{}", ["direct", "in_disjunction", "after_item_in_disjunct", "twice", "twice_parenthesised", "twice_in_disjunct", "head_twice"][form]);
               true
            },
         },
         "ds_on_lattice" => {
            // a custom provider, or the default provider written out (with or without the leading `::`, with or
            // without the same provider as the program-wide default): none may sit on a lattice
            let forms = [
               ("eqrel", "::ascent_byods_rels::eqrel", false),
               ("trrel", "::ascent_byods_rels::trrel", false),
               ("default_rel", "ascent::rel", false),
               ("default_rel_global_path", "::ascent::rel", false),
               ("same_as_program_default", "ascent::rel", true),
               ("same_as_program_default_global_path", "::ascent::rel", true),
            ];
            let (kind, path, program_wide) = forms[r.below(forms.len())];
            match prog.rels.iter().position(|d| d.is_lattice) {
               Some(li) => new_items[li] = format!("#[ds({path})] {}", items[li]),
               None => new_items.insert(0, format!("#[ds({path})] lattice zl(u32, u32);")),
            }
            if program_wide {
               new_items.insert(0, format!("#![ds({path})]"));
            }
            site = format!("declaration:{kind}");
            true
         },
         "two_ds_attributes" => {
            let di = r.below(n_decl);
            if prog.rels[di].is_lattice {
               false
            } else {
               new_items[di] = format!("#[ds(::ascent_byods_rels::trrel)] #[ds(::ascent_byods_rels::eqrel)] {}", items[di]);
               site = "declaration".into();
               true
            }
         },
         "unknown_program_attribute" => {
            // a plain unknown name, a misspelt known one, and unknown multi-segment paths (with and without arguments)
            let forms = [
               ("plain", "#![frobnicate]"),
               ("misspelt", "#![measure_rule_time]"),
               ("path", "#![my_tool::frobnicate]"),
               ("known_name_with_path", "#![ascent::measure_rule_times]"),
               ("path_with_args", "#![my_tool::frobnicate(level = 3)]"),
               ("plain_with_args", "#![frobnicate(level = 3)]"),
            ];
            let (kind, text) = forms[r.below(forms.len())];
            new_items.insert(0, text.into());
            site = format!("program:{kind}");
            true
         },
         "inter_rule_parallelism_on_serial" => {
            case_kind = if r.chance(50) { "ascent".into() } else { "ascent_run".into() };
            new_items.insert(0, "#![inter_rule_parallelism]".into());
            site = "program".into();
            true
         },
         "unknown_relation_attribute" => {
            // on a relation or (half of the time, if there is one) on a lattice: the declarations of lattices are emitted
            // by other code, in particular under the parallel macros
            let lats: Vec<usize> = (0..n_decl).filter(|&i| prog.rels[i].is_lattice).collect();
            let di = if !lats.is_empty() && r.chance(50) { lats[r.below(lats.len())] } else { r.below(n_decl) };
            let forms = [("plain", "#[frobnicate]"), ("path", "#[my_tool::frobnicate]"), ("with_args", "#[frobnicate(level = 3)]")];
            let (kind, text) = forms[r.below(forms.len())];
            new_items[di] = format!("{text} {}", items[di]);
            site = format!("declaration:{kind}{}", if prog.rels[di].is_lattice { "_on_lattice" } else { "" });
            expect = "accept";
            true
         },
         "include_source_in_ascent_source" => {
            case_kind = "ascent_source".into();
            // at any item position; directly after an in-program macro definition (the one item that ends with `}`);
            // directly after an inner attribute at the top of the source
            let form = r.below(4);
            match form {
               0 | 1 => {
                  let cut = r.below(new_items.len() + 1);
                  new_items.insert(cut, "include_source!(other::thing);".into());
                  site = format!("item{}", cut);
               },
               2 => {
                  let cut = n_decl + r.below(new_items.len() - n_decl + 1);
                  new_items.insert(cut, "include_source!(other::thing);".into());
                  new_items.insert(cut, "macro zzm($x: ident) { if true }".into());
                  site = format!("item{}:after_macro_definition", cut);
               },
               _ => {
                  new_items.insert(0, "include_source!(other::thing);".into());
                  new_items.insert(0, "#![measure_rule_times]".into());
                  site = "item0:after_inner_attribute".into();
               },
            }
            new_items.insert(0, "some_source:".into());
            true
         },
         other => panic!("operator {other}"),
      };
      if !ok {
         return None;
      }
      let case = IllCase {
         id: id.to_string(),
         operator: op.to_string(),
         site,
         kind: case_kind,
         text: new_items.join("\n"),
         expect_inproc: expect,
      };
      Some((case, (format!("wf_{id}"), kname.to_string(), base_text)))
}
