use serde::{Deserialize, Serialize};

/// Column types (the Rust type of a column). Lattice behaviour is determined by the type when the
/// column is the last column of a `lattice`.
#[derive(Clone, Copy, Debug, Serialize, Deserialize, PartialEq, Eq, Hash, PartialOrd, Ord)]
pub enum Ty {
   I32,
   U32,
   U8,
   Usize,
   F64,
   Bool,
   Str,
   OptI32,
   PairI32,
   // types only used as lattice values (they are also valid plain columns)
   DualU32,
   OptU32,
   SetU8,
   BSetU8,
   CPropU8,
   PairU32,
   ProdU32DualU32,
   /// `(Dual<u32>, u32)`: the shipped lexicographic tuple lattice over a reversed first component
   PairDualU32,
   /// `Dual<Set<u8>>`: join is intersection
   DualSetU8,
}

impl Ty {
   pub fn rust(self) -> &'static str {
      match self {
         Ty::I32 => "i32",
         Ty::U32 => "u32",
         Ty::U8 => "u8",
         Ty::Usize => "usize",
         Ty::F64 => "f64",
         Ty::Bool => "bool",
         Ty::Str => "String",
         Ty::OptI32 => "Option<i32>",
         Ty::PairI32 => "(i32, i32)",
         Ty::DualU32 => "::ascent::Dual<u32>",
         Ty::OptU32 => "Option<u32>",
         Ty::SetU8 => "::ascent::lattice::set::Set<u8>",
         Ty::BSetU8 => "::ascent::lattice::bounded_set::BoundedSet<3, u8>",
         Ty::CPropU8 => "::ascent::lattice::constant_propagation::ConstPropagation<u8>",
         Ty::PairU32 => "(u32, u32)",
         Ty::ProdU32DualU32 => "::vglue::HProd",
         Ty::PairDualU32 => "(::ascent::Dual<u32>, u32)",
         Ty::DualSetU8 => "::ascent::Dual<::ascent::lattice::set::Set<u8>>",
      }
   }
   pub fn is_copy(self) -> bool {
      !matches!(self, Ty::Str | Ty::SetU8 | Ty::BSetU8 | Ty::DualSetU8)
   }
   pub fn is_int(self) -> bool { matches!(self, Ty::I32 | Ty::U32 | Ty::U8 | Ty::Usize) }
   pub fn suffix(self) -> &'static str {
      match self {
         Ty::I32 => "i32",
         Ty::U32 => "u32",
         Ty::U8 => "u8",
         Ty::Usize => "usize",
         _ => "",
      }
   }
}

#[derive(Clone, Copy, Debug, Serialize, Deserialize, PartialEq, Eq, Hash)]
pub enum CmpOp {
   Eq,
   Ne,
   Lt,
   Le,
}

#[derive(Clone, Debug, Serialize, Deserialize, PartialEq, Eq, Hash)]
pub enum Expr {
   Var(String),
   Int(i64, Ty),
   Str(String),
   Bool(bool),
   /// `(e + c) % d` on an integer type; c >= 0, d > 0, operands non-negative.
   AddMod(Box<Expr>, i64, i64),
   /// `min(a + b, cap)` on an integer type (monotone in both arguments).
   SatAdd(Box<Expr>, Box<Expr>, i64),
   Min(Box<Expr>, Box<Expr>),
   Max(Box<Expr>, Box<Expr>),
   Some_(Box<Expr>),
   None_(Ty),
   Tup(Vec<Expr>),
   Proj(Box<Expr>, usize),
   /// `Dual(e)`
   DualOf(Box<Expr>),
   /// `e.0` on a Dual
   UnDual(Box<Expr>),
   /// `Set::singleton(e)`
   SetSingle(Box<Expr>),
   /// union of two Set<u8> values
   SetUnion(Box<Expr>, Box<Expr>),
   /// `set.contains(&e)` -> bool (Set<u8>)
   SetContains(Box<Expr>, Box<Expr>),
   /// `set.len() >= n` -> bool (Set<u8>), upward closed
   SetLenGe(Box<Expr>, i64),
   /// BoundedSet<3,u8>::singleton(e)
   BSetSingle(Box<Expr>),
   /// ConstPropagation::Constant(e)
   CConst(Box<Expr>),
   CTop,
   CBot,
   /// HProd::new(a, Dual(b))
   ProdOf(Box<Expr>, Box<Expr>),
   /// first (u32) component of an HProd
   ProdFst(Box<Expr>),
   /// `e as ty` between numeric types
   Cast(Box<Expr>, Ty),
   /// `{ let var = init; body }`: a block whose `let` shadows `var` (owned inside the block) and reads it in its own initialiser
   LetBlock(String, Box<Expr>, Box<Expr>),
   Cmp(CmpOp, Box<Expr>, Box<Expr>),
   And(Box<Expr>, Box<Expr>),
   Or(Box<Expr>, Box<Expr>),
   Not(Box<Expr>),
}

#[derive(Clone, Debug, Serialize, Deserialize, PartialEq, Eq, Hash)]
pub enum Pat {
   Var(String),
   Wild,
   Some_(Box<Pat>),
   None_,
   Tup(Vec<Pat>),
   Dual(Box<Pat>),
   /// `ConstPropagation::Constant(p)`
   CConst(Box<Pat>),
   /// integer literal pattern
   Lit(i64),
   /// `x @ p`
   Bind(String, Box<Pat>),
}

#[derive(Clone, Debug, Serialize, Deserialize, PartialEq, Eq, Hash)]
pub enum Arg {
   Var(String),
   Wild,
   Expr(Expr),
   Pat(Pat),
}

#[derive(Clone, Debug, Serialize, Deserialize, PartialEq, Eq, Hash)]
pub enum Cond {
   If(Expr),
   IfLet(Pat, Expr),
   Let(Pat, Expr),
}

#[derive(Clone, Debug, Serialize, Deserialize, PartialEq, Eq, Hash)]
pub enum IterExpr {
   /// `lo..hi`
   Range(Expr, Expr),
   /// `[e1, e2, ..]` (by value)
   Array(Vec<Expr>),
   /// `vec![e1, e2, ..].iter()` (by reference)
   VecIter(Vec<Expr>),
}

#[derive(Clone, Debug, Serialize, Deserialize, PartialEq, Eq, Hash)]
pub enum Aggregator {
   Count,
   Sum,
   Min,
   Max,
   Mean,
   /// percentile(p) with p given in tenths of a percent... stored as integer percent 0..=99
   Percentile(u32),
   /// harness aggregator: the two largest distinct values (a rule fires once per returned value)
   Top2,
   /// harness aggregator: number of input tuples, computed by iterating (multiplicity sensitive)
   CollectLen,
   /// user aggregator returning one `(min, max)` tuple, destructured by a tuple pattern
   MinMax,
   /// `not()` written explicitly as an aggregate
   Not,
}

#[derive(Clone, Debug, Serialize, Deserialize, PartialEq, Eq, Hash)]
pub struct MacroArg {
   /// true: ident argument; false: expr argument
   pub is_ident: bool,
   pub ident: String,
   pub expr: Option<Expr>,
}

#[derive(Clone, Debug, Serialize, Deserialize, PartialEq, Eq, Hash)]
pub enum BodyItem {
   Clause { rel: String, args: Vec<Arg>, conds: Vec<Cond> },
   Cond(Cond),
   For { pat: Pat, iter: IterExpr },
   Agg { pat: Pat, agg: Aggregator, bound: Vec<String>, rel: String, args: Vec<Arg> },
   Neg { rel: String, args: Vec<Arg> },
   Disj(Vec<Vec<BodyItem>>),
   MacroCall { name: String, args: Vec<MacroArg> },
}

#[derive(Clone, Debug, Serialize, Deserialize, PartialEq, Eq, Hash)]
pub enum HeadItem {
   Clause { rel: String, args: Vec<Expr> },
   MacroCall { name: String, args: Vec<MacroArg> },
}

#[derive(Clone, Debug, Serialize, Deserialize, PartialEq, Eq, Hash)]
pub struct Rule {
   pub heads: Vec<HeadItem>,
   pub body: Vec<BodyItem>,
}

#[derive(Clone, Copy, Debug, Serialize, Deserialize, PartialEq, Eq, Hash)]
pub enum Ds {
   EqRel,
   TrRel,
   TrRelUf,
}

#[derive(Clone, Debug, Serialize, Deserialize, PartialEq, Eq, Hash)]
pub struct RelDecl {
   pub name: String,
   pub cols: Vec<Ty>,
   pub is_lattice: bool,
   pub ds: Option<Ds>,
   /// the harness may load facts into this relation
   pub is_input: bool,
}

#[derive(Clone, Debug, Serialize, Deserialize, PartialEq, Eq, Hash)]
pub struct MacroParam {
   pub name: String,
   pub is_ident: bool,
   /// type of the variable / expression the parameter stands for (the generator keeps call sites type-correct)
   pub ty: Ty,
   /// for ident parameters: "needs" (bound before the call), "soft" (plain clause variable: binds or joins),
   /// "hard" (bound by a pattern / let / for / aggregate inside the macro: the call site must pass a fresh name)
   pub role: String,
}

#[derive(Clone, Debug, Serialize, Deserialize, PartialEq, Eq, Hash)]
pub struct MacroDef {
   pub name: String,
   pub params: Vec<MacroParam>,
   /// body macros expand to body items; head macros to head clauses
   pub body: Vec<BodyItem>,
   pub head: Vec<HeadItem>,
   pub is_head: bool,
   /// the body is written with a comma after its last item (legal; the expansion must not change)
   #[serde(default)]
   pub trailing_comma: bool,
}

#[derive(Clone, Debug, Serialize, Deserialize, PartialEq, Eq, Hash, Default)]
pub struct Program {
   pub rels: Vec<RelDecl>,
   pub rules: Vec<Rule>,
   pub macros: Vec<MacroDef>,
}

impl Program {
   pub fn rel(&self, name: &str) -> &RelDecl {
      self.rels.iter().rev().find(|r| r.name == name).unwrap_or_else(|| panic!("unknown relation {name}"))
   }
   pub fn has_rel(&self, name: &str) -> bool { self.rels.iter().any(|r| r.name == name) }
}

impl Rule {
   pub fn head_clauses(&self) -> impl Iterator<Item = (&String, &Vec<Expr>)> {
      self.heads.iter().filter_map(|h| match h {
         HeadItem::Clause { rel, args } => Some((rel, args)),
         _ => None,
      })
   }
}
