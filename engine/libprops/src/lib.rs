//! Library-level property tests (C16 lattice laws, C17 aggregators, C18 union-find structures, C19 index types).
//! usage: libprops <C16|C17|C18|C19> --tier quick|thorough --seed N --out FILE [--replay FILE]

use std::collections::BTreeMap;

pub mod c16;
pub mod c17;
pub mod c18;
pub mod c19;
pub mod fuzz;

#[derive(Default, serde::Serialize)]
pub struct Report {
   pub evaluations: u64,
   pub nontrivial: u64,
   pub exhaustive: bool,
   pub distribution: BTreeMap<String, u64>,
   pub samples: Vec<serde_json::Value>,
   pub violations: Vec<serde_json::Value>,
   pub notes: Vec<String>,
}

impl Report {
   pub fn count(&mut self, label: &str, n: u64) { *self.distribution.entry(label.to_string()).or_insert(0) += n; }
   pub fn violation(&mut self, v: serde_json::Value) {
      if self.violations.len() < 20 {
         self.violations.push(v);
      }
   }
}

pub struct Args {
   pub prop: String,
   pub tier: String,
   pub seed: u64,
   pub out: String,
   pub replay: Option<String>,
}

pub fn catch<R>(f: impl FnOnce() -> R) -> Result<R, String> {
   std::panic::catch_unwind(std::panic::AssertUnwindSafe(f)).map_err(|p| {
      if let Some(s) = p.downcast_ref::<&str>() {
         s.to_string()
      } else if let Some(s) = p.downcast_ref::<String>() {
         s.clone()
      } else {
         "<panic>".into()
      }
   })
}

