//! C17: library aggregators against their mathematical definitions; totality.

use ascent::aggregators::*;
use proptest::prelude::*;
use proptest::test_runner::{Config, RngSeed, TestRunner};

use crate::{catch, Args, Report};

/// the values for a message: all of a short input, the head of a long one
fn show(xs: &[i64]) -> String {
   if xs.len() <= 40 { format!("{xs:?}") } else { format!("{:?}.. ({} values)", &xs[..12], xs.len()) }
}

pub const SHAPES: [&str; 7] = [
   "exact",
   "filter (0, Some(n))",
   "exact half then filtered half (n/2, Some(n))",
   "one exact then filtered rest (1, Some(n))",
   "peeked filter (1, Some(n))",
   "exact then a tail with an unbounded hint (n, None)",
   "filtered half then exact half (n - n/2, Some(n))",
];

/// The same multiset handed over through iterators with different (always truthful) size hints: exact; lower bound 0;
/// a positive lower bound below the true length; no upper bound.
fn shaped<'a, T: 'a>(xs: &'a [T], shape: u8) -> Box<dyn Iterator<Item = &'a T> + 'a> {
   let n = xs.len();
   match shape {
      0 => Box::new(xs.iter()),
      1 => Box::new(xs.iter().filter(|_| true)),
      2 => Box::new(xs[..n / 2].iter().chain(xs[n / 2..].iter().filter(|_| true))),
      3 => Box::new(xs[..n.min(1)].iter().chain(xs[n.min(1)..].iter().filter(|_| true))),
      4 => {
         let mut it = xs.iter().filter(|_| true).peekable();
         let _ = it.peek();
         Box::new(it)
      },
      5 => Box::new(xs.iter().chain(std::iter::repeat(()).take_while(|_| false).flat_map(move |_| xs[..0].iter()))),
      _ => Box::new(xs[..n / 2].iter().filter(|_| true).chain(xs[n / 2..].iter())),
   }
}

pub fn check_all(xs: &[i64], p: f64, shape: u8) -> Result<(), String> {
   let mut sorted = xs.to_vec();
   sorted.sort();
   let n = xs.len();
   let shape = shape % SHAPES.len() as u8;
   let filtered = SHAPES[shape as usize];
   macro_rules! it {
      () => {{
         let b: Box<dyn Iterator<Item = (&i64,)>> = Box::new(shaped(xs, shape).map(|x| (x,)));
         b
      }};
   }
   macro_rules! unit_it {
      () => {{
         let b: Box<dyn Iterator<Item = ()>> = Box::new(shaped(xs, shape).map(|_| ()));
         b
      }};
   }
   let got: Vec<i64> = catch(|| min(it!()).collect()).map_err(|e| format!("min panicked: {e}"))?;
   if got != sorted.first().cloned().into_iter().collect::<Vec<_>>() {
      return Err(format!("min({}) = {got:?}", show(xs)));
   }
   let got: Vec<i64> = catch(|| max(it!()).collect()).map_err(|e| format!("max panicked: {e}"))?;
   if got != sorted.last().cloned().into_iter().collect::<Vec<_>>() {
      return Err(format!("max({}) = {got:?}", show(xs)));
   }
   let got: Vec<i64> = catch(|| sum(it!()).collect()).map_err(|e| format!("sum panicked: {e}"))?;
   if got != vec![xs.iter().sum::<i64>()] {
      return Err(format!("sum({}) = {got:?}", show(xs)));
   }
   let got: Vec<usize> = catch(|| count(unit_it!()).collect()).map_err(|e| format!("count panicked: {e}"))?;
   if got != vec![n] {
      return Err(format!("count over {n} tuples (iterator: {filtered}) = {got:?}"));
   }
   let small: Vec<i32> = xs.iter().map(|x| (*x % 1000) as i32).collect();
   let got: Vec<f64> = catch(|| mean(shaped(&small, shape).map(|x| (x,))).collect()).map_err(|e| format!("mean panicked: {e}"))?;
   let want: Vec<f64> = if n == 0 { vec![] } else { vec![small.iter().map(|x| *x as i64).sum::<i64>() as f64 / n as f64] };
   if got != want {
      return Err(format!("mean over {n} values {:?}{} = {got:?}, expected {want:?}", &small[..n.min(12)], if n > 12 { ".." } else { "" }));
   }
   let got: Vec<()> = catch(|| not(unit_it!()).collect()).map_err(|e| format!("not panicked: {e}"))?;
   if got.len() != (n == 0) as usize {
      return Err(format!("not() over {n} tuples yields {} units", got.len()));
   }
   let got: Vec<i64> = catch(|| percentile(p)(it!()).collect()).map_err(|e| format!("percentile({p}) over {n} values panicked: {e}"))?;
   if n == 0 {
      if !got.is_empty() {
         return Err(format!("percentile({p}) of nothing = {got:?}"));
      }
   } else {
      let rank = ((n as f64 * p / 100.0) as usize).min(n - 1);
      if got != vec![sorted[rank]] {
         return Err(format!("percentile({p})({}) = {got:?}, expected the element of rank {rank} = {}", show(xs), sorted[rank]));
      }
   }
   // one percentile closure applied to several groups in a row (a rule binds the aggregator once and applies it per
   // group): every application is a function of its own input only
   let f = catch(|| percentile(p)).map_err(|e| format!("percentile({p}) panicked: {e}"))?;
   for (lo, hi) in [(0usize, n.min(1)), (0, n), (0, 0), (n / 2, n), (0, n.min(1)), (0, n)] {
      let g = &xs[lo..hi];
      let got: Vec<i64> = catch(|| f(Box::new(shaped(g, shape).map(|x| (x,))) as Box<dyn Iterator<Item = (&i64,)>>).collect())
         .map_err(|e| format!("a reused percentile({p}) closure panicked on {} values: {e}", g.len()))?;
      let mut sg = g.to_vec();
      sg.sort();
      let want: Vec<i64> = if g.is_empty() { vec![] } else { vec![sg[((g.len() as f64 * p / 100.0) as usize).min(g.len() - 1)]] };
      if got != want {
         return Err(format!("a percentile({p}) closure applied to several groups in a row returned {got:?} for {}, expected {want:?}", show(g)));
      }
   }
   Ok(())
}

pub fn run(a: &Args, rep: &mut Report) {
   let cases = if a.tier == "quick" { 20000 } else { 400000 };
   let mut runner = TestRunner::new(Config { cases, failure_persistence: None, rng_seed: RngSeed::Fixed(a.seed), ..Config::default() });
   let xs = prop_oneof![
      2 => Just(vec![]),
      2 => proptest::collection::vec(-1000i64..1000, 1..=1),
      8 => proptest::collection::vec(-5i64..5, 2..40),
      4 => proptest::collection::vec(-1_000_000_000i64..1_000_000_000, 2..200),
      2 => (0i64..50, 2usize..30).prop_map(|(c, n)| vec![c; n]),
      2 => proptest::collection::vec(-100i64..100, 2..60).prop_map(|mut v| { v.sort(); v }),
      2 => proptest::collection::vec(-100i64..100, 2..60).prop_map(|mut v| { v.sort(); v.reverse(); v }),
      // large groups, with sizes at and around powers of two (blocked / chunked implementations): a ramp, whose tail
      // differs from its head, or a ramp with a few outliers
      2 => (8u32..14, -2i64..=2, 0u8..3).prop_map(|(k, d, shape)| {
         let n = ((1i64 << k) + d).max(2) as usize;
         (0..n as i64).map(|i| match shape { 0 => i + 1, 1 => (i * 7919) % 1000 - 500, _ => if i % 97 == 0 { 100_000 } else { i % 5 } }).collect::<Vec<i64>>()
      }),
      1 => proptest::collection::vec(-1000i64..1000, 200..3000),
   ];
   // p: end points, uniform, and rank boundaries k*100/len +- eps
   let p = prop_oneof![
      2 => Just(0.0f64),
      3 => Just(100.0f64),
      6 => 0.0f64..=100.0,
      4 => (0u32..=20, 1u32..=20, -1i32..=1).prop_map(|(k, len, e)| ((k.min(len) as f64) * 100.0 / len as f64 + e as f64 * 1e-9).clamp(0.0, 100.0)),
   ];
   let strat = (xs, p, prop_oneof![3 => Just(0u8), 7 => 1u8..SHAPES.len() as u8]);
   let n = std::cell::Cell::new(0u64);
   let nontrivial = std::cell::Cell::new(0u64);
   let dist = std::cell::RefCell::new(std::collections::BTreeMap::<String, u64>::new());
   let samples = std::cell::RefCell::new(vec![]);
   let res = runner.run(&strat, |(xs, p, filtered)| {
      n.set(n.get() + 1);
      let len = xs.len();
      let dup = {
         let mut s = xs.clone();
         s.sort();
         s.windows(2).any(|w| w[0] == w[1])
      };
      let boundary = len > 0 && ((len as f64 * p / 100.0).fract() < 1e-6 || p == 0.0 || p == 100.0);
      *dist.borrow_mut().entry(format!("len_class={}", match len { 0 => "0", 1 => "1", 2..=9 => "2-9", 10..=199 => "10-199", 200..=1023 => "200-1023", _ => "1024+" })).or_insert(0) += 1;
      if p == 100.0 {
         *dist.borrow_mut().entry("p=100".into()).or_insert(0) += 1;
      }
      *dist.borrow_mut().entry(format!("iterator={}", SHAPES[filtered as usize])).or_insert(0) += 1;
      if len >= 2 && (dup || boundary) {
         nontrivial.set(nontrivial.get() + 1);
         if samples.borrow().len() < 3 {
            samples.borrow_mut().push(serde_json::json!({"values": xs.iter().take(12).collect::<Vec<_>>(), "len": len, "p": p, "iterator": SHAPES[filtered as usize]}));
         }
      }
      check_all(&xs, p, filtered).map_err(TestCaseError::fail)
   });
   rep.evaluations = n.get();
   rep.nontrivial = nontrivial.get();
   rep.distribution = dist.into_inner();
   rep.samples = samples.into_inner();
   if let Err(e) = res {
      rep.violation(serde_json::json!({"failure": format!("{e}")}));
   }
   // fixed regression cases (KF-19: percentile(100.0) used to panic on every non-empty input)
   for xs in [vec![0i64], vec![3, 1], vec![5, 4, 3, 2, 1]] {
      for p in [100.0, 0.0, 99.999999, 50.0] {
         rep.evaluations += 1;
         if let Err(e) = check_all(&xs, p, 0) {
            rep.violation(serde_json::json!({"failure": e, "regression": "KF-19"}));
         }
      }
   }
   // strings as well (Ord + Clone only)
   let words = ["b", "a", "c", "a"].map(|s| s.to_string());
   let got: Vec<String> = min(words.iter().map(|w| (w,))).collect();
   rep.evaluations += 1;
   if got != vec!["a".to_string()] {
      rep.violation(serde_json::json!({"failure": format!("min over strings = {got:?}")}));
   }
}
