//! Byte-level entry points: the same oracles as the proptest runs, with the input decoded from raw bytes, for
//! coverage-guided fuzzing (cargo-fuzz / libFuzzer targets in ../fuzz) and for replaying saved fuzz inputs without a fuzzer.

use crate::c18::UfOp;
use crate::c19::Op;

pub const TARGETS: &[&str] = &["agg", "trrel_uf", "uf", "index"];

/// Ok(non-trivial?) or the failure text.
pub fn entry(target: &str, data: &[u8]) -> Result<bool, String> {
   match target {
      "agg" => agg(data),
      "trrel_uf" => trrel_uf(data),
      "uf" => uf(data),
      "index" => index(data),
      t => panic!("unknown fuzz target {t}"),
   }
}

fn agg(data: &[u8]) -> Result<bool, String> {
   if data.len() < 3 {
      return Ok(false);
   }
   let flags = data[0];
   let filtered: u8 = if flags & 1 == 1 { 1 + ((flags >> 4) & 7) % 6 } else { 0 };
   let wide = flags & 8 == 8;
   let body = &data[3..];
   let xs: Vec<i64> = if wide {
      body.chunks_exact(4).map(|c| i32::from_le_bytes([c[0], c[1], c[2], c[3]]) as i64).collect()
   } else {
      body.iter().map(|b| *b as i8 as i64).collect()
   };
   let xs: Vec<i64> = xs.into_iter().take(6000).collect();
   let raw = u16::from_le_bytes([data[1], data[2]]);
   let p = match (flags >> 1) & 3 {
      0 => 0.0,
      1 => 100.0,
      2 => raw as f64 * 100.0 / 65535.0,
      _ => {
         // a rank boundary k*100/len (+- epsilon)
         let len = xs.len().max(1) as f64;
         let k = (data[1] as usize % (xs.len() + 1)) as f64;
         let eps = [(-1e-9), 0.0, 1e-9][data[2] as usize % 3];
         (k * 100.0 / len + eps).clamp(0.0, 100.0)
      },
   };
   crate::c17::check_all(&xs, p, filtered)?;
   let mut s = xs.clone();
   s.sort();
   Ok(xs.len() >= 2 && (s.windows(2).any(|w| w[0] == w[1]) || p == 0.0 || p == 100.0))
}

fn trrel_uf(data: &[u8]) -> Result<bool, String> {
   let n = 8u8;
   let ops: Vec<(u8, u8)> = data.chunks_exact(2).take(80).map(|c| (c[0] % n, c[1] % n)).collect();
   if ops.is_empty() {
      return Ok(false);
   }
   crate::c18::check_history(n as usize, &ops)
}

fn uf(data: &[u8]) -> Result<bool, String> {
   let ops: Vec<UfOp> = data
      .chunks_exact(3)
      .take(80)
      .map(|c| match c[0] % 5 {
         0 => UfOp::Add(c[1] % 24),
         1 => UfOp::FindItem(c[1] % 26),
         2 => UfOp::UnionAdd(c[1] % 24, c[2] % 24),
         3 => UfOp::UnionIds(c[1], c[2]),
         _ => UfOp::FindId(c[1]),
      })
      .collect();
   if ops.is_empty() {
      return Ok(false);
   }
   // first byte of the tail decides whether the partition is compared after every step or only at the end
   crate::c18::check_uf_mode(&ops, data.len() % 2 == 0)
}

fn index(data: &[u8]) -> Result<bool, String> {
   if data.len() < 4 {
      return Ok(false);
   }
   let t = data[0];
   let mut ops: Vec<Op> = data[1..]
      .chunks_exact(3)
      .take(60)
      .map(|c| match c[0] % 12 {
         0..=3 => Op::Insert(c[1] % 6, c[2] % 6),
         4 | 5 => Op::InsertShared(c[1] % 6, c[2] % 6),
         6 => Op::InsertIfAbsent(c[1] % 6, c[2] % 6),
         7 | 8 => Op::Merge,
         9 => Op::Lookup(c[1] % 7),
         10 => Op::IterAll,
         _ => Op::FreezeCycle,
      })
      .collect();
   ops.push(Op::IterAll);
   let o = crate::c19::history_by_type(t, &ops)?;
   Ok(o.merges >= 2 && o.swap_path && o.no_swap_path && o.both_sides_key)
}

/// seed inputs for a campaign: n pseudo-random byte strings of mixed lengths (deterministic in `seed`)
pub fn write_corpus(target: &str, dir: &str, n: usize, seed: u64) {
   assert!(TARGETS.contains(&target) || target == "frontend");
   std::fs::create_dir_all(dir).expect("corpus dir");
   let mut s = seed.wrapping_mul(0x9E3779B97F4A7C15) ^ 0xD1B54A32D192ED03;
   let mut next = || {
      s = s.wrapping_add(0x9E3779B97F4A7C15);
      let mut z = s;
      z = (z ^ (z >> 30)).wrapping_mul(0xBF58476D1CE4E5B9);
      z = (z ^ (z >> 27)).wrapping_mul(0x94D049BB133111EB);
      z ^ (z >> 31)
   };
   for i in 0..n {
      let len = [8usize, 24, 64, 160, 400][i % 5];
      let bytes: Vec<u8> = (0..len).map(|_| (next() >> 24) as u8).collect();
      std::fs::write(format!("{dir}/seed{i:03}"), bytes).expect("write seed");
   }
}
