//! Library-level property tests (C16 lattice laws, C17 aggregators, C18 union-find structures, C19 index types).
//! usage: libprops <C16|C17|C18|C19> --tier quick|thorough --seed N --out FILE [--replay FILE]

use std::collections::BTreeMap;

mod c16;
mod c17;
mod c18;
mod c19;

#[derive(Default, serde::Serialize)]
pub struct Report {
   pub evaluations: u64,
   pub nontrivial: u64,
   pub exhaustive: bool,
   pub distribution: BTreeMap<String, u64>,
   pub samples: Vec<serde_json::Value>,
   pub violations: Vec<serde_json::Value>,
   pub notes: Vec<String>,
}

impl Report {
   pub fn count(&mut self, label: &str, n: u64) { *self.distribution.entry(label.to_string()).or_insert(0) += n; }
   pub fn violation(&mut self, v: serde_json::Value) {
      if self.violations.len() < 20 {
         self.violations.push(v);
      }
   }
}

pub struct Args {
   pub prop: String,
   pub tier: String,
   pub seed: u64,
   pub out: String,
   pub replay: Option<String>,
}

pub fn catch<R>(f: impl FnOnce() -> R) -> Result<R, String> {
   std::panic::catch_unwind(std::panic::AssertUnwindSafe(f)).map_err(|p| {
      if let Some(s) = p.downcast_ref::<&str>() {
         s.to_string()
      } else if let Some(s) = p.downcast_ref::<String>() {
         s.clone()
      } else {
         "<panic>".into()
      }
   })
}

fn main() {
   let argv: Vec<String> = std::env::args().collect();
   let mut a = Args { prop: argv.get(1).cloned().unwrap_or_default(), tier: "quick".into(), seed: 1, out: "libprops.json".into(), replay: None };
   let mut i = 2;
   while i < argv.len() {
      let v = argv.get(i + 1).cloned().unwrap_or_default();
      match argv[i].as_str() {
         "--tier" => a.tier = v,
         "--seed" => a.seed = v.parse().expect("seed"),
         "--out" => a.out = v,
         "--replay" => a.replay = Some(v),
         o => panic!("unknown argument {o}"),
      }
      i += 2;
   }
   std::panic::set_hook(Box::new(|_| {}));
   let mut rep = Report::default();
   match a.prop.as_str() {
      "C16" => c16::run(&a, &mut rep),
      "C17" => c17::run(&a, &mut rep),
      "C18" => c18::run(&a, &mut rep),
      "C19" => c19::run(&a, &mut rep),
      p => panic!("unknown property {p}"),
   }
   std::fs::write(&a.out, serde_json::to_string_pretty(&rep).unwrap()).expect("write report");
}
