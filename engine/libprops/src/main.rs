//! usage: libprops <C16|C17|C18|C19> --tier quick|thorough --seed N --out FILE
//!        libprops fuzz-replay <target> FILE      (replays a saved fuzz input outside the fuzzer; exit 1 on failure)
//!        libprops fuzz-corpus <target> DIR N SEED  (writes N seed inputs for a fuzz campaign)

use libprops::*;

fn main() {
   let argv: Vec<String> = std::env::args().collect();
   if argv.get(1).map(|s| s.as_str()) == Some("fuzz-replay") {
      std::panic::set_hook(Box::new(|_| {}));
      let data = std::fs::read(&argv[3]).expect("input file");
      match fuzz::entry(&argv[2], &data) {
         Ok(nt) => println!("fuzz-replay target={} ok nontrivial={nt}", argv[2]),
         Err(e) => {
            println!("FAILURE {e}");
            std::process::exit(1);
         },
      }
      return;
   }
   if argv.get(1).map(|s| s.as_str()) == Some("fuzz-stats") {
      // libprops fuzz-stats <target> DIR: every file of a corpus through the oracle; prints {"files":..,"nontrivial":..,"failures":[..]}
      std::panic::set_hook(Box::new(|_| {}));
      let (mut files, mut nt, mut failures) = (0u64, 0u64, vec![]);
      let mut names: Vec<_> = std::fs::read_dir(&argv[3]).expect("dir").filter_map(|e| e.ok()).map(|e| e.path()).filter(|p| p.is_file()).collect();
      names.sort();
      for f in names {
         files += 1;
         match fuzz::entry(&argv[2], &std::fs::read(&f).expect("read")) {
            Ok(true) => nt += 1,
            Ok(false) => {},
            Err(e) => failures.push(serde_json::json!({"file": f.to_string_lossy(), "failure": e})),
         }
      }
      println!("{}", serde_json::json!({"files": files, "nontrivial": nt, "failures": failures}));
      return;
   }
   if argv.get(1).map(|s| s.as_str()) == Some("fuzz-corpus") {
      fuzz::write_corpus(&argv[2], &argv[3], argv[4].parse().expect("n"), argv[5].parse().expect("seed"));
      return;
   }
   let mut a = Args { prop: argv.get(1).cloned().unwrap_or_default(), tier: "quick".into(), seed: 1, out: "libprops.json".into(), replay: None };
   let mut i = 2;
   while i < argv.len() {
      let v = argv.get(i + 1).cloned().unwrap_or_default();
      match argv[i].as_str() {
         "--tier" => a.tier = v,
         "--seed" => a.seed = v.parse().expect("seed"),
         "--out" => a.out = v,
         "--replay" => a.replay = Some(v),
         o => panic!("unknown argument {o}"),
      }
      i += 2;
   }
   std::panic::set_hook(Box::new(|_| {}));
   let mut rep = Report::default();
   match a.prop.as_str() {
      "C16" => c16::run(&a, &mut rep),
      "C17" => c17::run(&a, &mut rep),
      "C18" => c18::run(&a, &mut rep),
      "C19" => c19::run(&a, &mut rep),
      p => panic!("unknown property {p}"),
   }
   std::fs::write(&a.out, serde_json::to_string_pretty(&rep).unwrap()).expect("write report");
}
