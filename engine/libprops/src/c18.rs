//! C18: TrRelUnionFind against Warshall's reflexive-transitive closure; UnionFind against a naive partition.

use std::collections::BTreeSet;

use ascent_byods_rels::trrel_union_find::TrRelUnionFind;
use ascent_byods_rels::uf::UnionFind;
use proptest::prelude::*;
use proptest::test_runner::{Config, RngSeed, TestRunner};

use crate::{catch, Args, Report};

struct Model {
   n: usize,
   reach: Vec<Vec<bool>>,
   mentioned: Vec<bool>,
}

impl Model {
   fn new(n: usize) -> Self { Model { n, reach: vec![vec![false; n]; n], mentioned: vec![false; n] } }
   /// returns whether the added pair closes a cycle through >= 2 previously distinct strongly connected classes
   fn add(&mut self, x: usize, y: usize) -> bool {
      // classes before
      let collapse = x != y && self.reach[y][x] && !self.reach[x][y] && {
         // some third element strictly between y and x, or x,y already in multi-element classes
         (0..self.n).any(|z| z != x && z != y && self.reach[y][z] && self.reach[z][x])
      };
      self.mentioned[x] = true;
      self.mentioned[y] = true;
      self.reach[x][x] = true;
      self.reach[y][y] = true;
      self.reach[x][y] = true;
      for k in 0..self.n {
         for i in 0..self.n {
            if self.reach[i][k] {
               for j in 0..self.n {
                  if self.reach[k][j] {
                     self.reach[i][j] = true;
                  }
               }
            }
         }
      }
      collapse
   }
   fn pairs(&self) -> BTreeSet<(u8, u8)> {
      let mut s = BTreeSet::new();
      for i in 0..self.n {
         for j in 0..self.n {
            if self.reach[i][j] {
               s.insert((i as u8, j as u8));
            }
         }
      }
      s
   }
}

/// applies the history to the real structure and the model, checking every query after every operation
pub fn check_history(n: usize, ops: &[(u8, u8)]) -> Result<bool, String> { check_history_after(n, &[], ops) }

/// `prefix` is applied without checks (it builds a large structure), then every step of `ops` is checked in full.
pub fn check_history_after(n: usize, prefix: &[(u8, u8)], ops: &[(u8, u8)]) -> Result<bool, String> {
   let mut uf = TrRelUnionFind::<u8>::default();
   let mut model = Model::new(n);
   let mut interesting = false;
   for &(x, y) in prefix {
      catch(|| uf.add(x, y)).map_err(|e| format!("add({x},{y}) panicked while building the prefix {prefix:?}: {e}"))?;
      model.add(x as usize, y as usize);
   }
   for (step, &(x, y)) in ops.iter().enumerate() {
      // (the return value of `add` is not part of the property: it is `true` for every pair of distinct known classes)
      catch(|| uf.add(x, y)).map_err(|e| format!("add({x},{y}) panicked at step {step} of {ops:?}: {e}"))?;
      interesting |= model.add(x as usize, y as usize);
      let expect = model.pairs();
      catch(|| {
         uf.assert_disjoint_invariant();
         uf.assert_set_connections_dominant_sets();
      })
      .map_err(|e| format!("internal consistency check failed after step {step} of {ops:?}: {e}"))?;
      for i in 0..n as u8 {
         for j in 0..n as u8 {
            let c = catch(|| uf.contains(&i, &j)).map_err(|e| format!("contains panicked: {e}"))?;
            if c != expect.contains(&(i, j)) {
               return Err(format!("contains({i},{j}) = {c} after step {step} of {ops:?}"));
            }
         }
      }
      let all: Vec<(u8, u8)> = catch(|| uf.iter_all().map(|(a, b)| (*a, *b)).collect()).map_err(|e| format!("iter_all panicked: {e}"))?;
      let all_set: BTreeSet<(u8, u8)> = all.iter().cloned().collect();
      if all_set != expect {
         return Err(format!("iter_all = {all_set:?}, closure = {expect:?} after step {step} of {ops:?}"));
      }
      if all.len() != all_set.len() {
         return Err(format!("iter_all yields duplicates after step {step} of {ops:?}: {all:?}"));
      }
      let cnt = catch(|| uf.count_exact()).map_err(|e| format!("count_exact panicked: {e}"))?;
      if cnt != expect.len() {
         return Err(format!("count_exact = {cnt}, closure has {} pairs after step {step} of {ops:?}", expect.len()));
      }
      for i in 0..n as u8 {
         // (as for iter_all, every element is listed once: these iterators feed count() / sum() over the relation)
         let fwd_list: Option<Vec<u8>> = catch(|| uf.set_of(&i).map(|it| it.cloned().collect())).map_err(|e| format!("set_of panicked: {e}"))?;
         let bwd_list: Option<Vec<u8>> = catch(|| uf.rev_set_of(&i).map(|it| it.cloned().collect())).map_err(|e| format!("rev_set_of panicked: {e}"))?;
         for (name, list) in [("set_of", &fwd_list), ("rev_set_of", &bwd_list)] {
            if let Some(l) = list {
               let distinct: BTreeSet<u8> = l.iter().cloned().collect();
               if distinct.len() != l.len() {
                  return Err(format!("{name}({i}) lists an element more than once: {l:?} after step {step} of {ops:?}"));
               }
            }
         }
         let fwd: Option<BTreeSet<u8>> = fwd_list.map(|l| l.into_iter().collect());
         let want: BTreeSet<u8> = expect.iter().filter(|(a, _)| *a == i).map(|(_, b)| *b).collect();
         if fwd.clone().unwrap_or_default() != want || (fwd.is_none() && model.mentioned[i as usize]) {
            return Err(format!("set_of({i}) = {fwd:?}, expected {want:?} after step {step} of {ops:?}"));
         }
         let bwd: Option<BTreeSet<u8>> = catch(|| uf.rev_set_of(&i).map(|it| it.cloned().collect())).map_err(|e| format!("rev_set_of panicked: {e}"))?;
         let want: BTreeSet<u8> = expect.iter().filter(|(_, b)| *b == i).map(|(a, _)| *a).collect();
         if bwd.clone().unwrap_or_default() != want {
            return Err(format!("rev_set_of({i}) = {bwd:?}, expected {want:?} after step {step} of {ops:?}"));
         }
      }
   }
   Ok(interesting)
}

#[derive(Clone, Debug)]
pub enum UfOp {
   Add(u8),
   FindItem(u8),
   UnionAdd(u8, u8),
   /// unsafe id-level union of two previously added items (by position in the list of added items)
   UnionIds(u8, u8),
   FindId(u8),
}

pub fn check_uf(ops: &[UfOp]) -> Result<bool, String> { check_uf_mode(ops, true) }

/// `eager`: compare the whole partition after every operation. That queries every item after every step, and every
/// query compresses the path it walks, so deep trees never exist; with `eager` off the partition is compared only at the
/// end of the history (the `find` operations of the history itself still act on the uncompressed structure).
pub fn check_uf_mode(ops: &[UfOp], eager: bool) -> Result<bool, String> {
   let mut uf = UnionFind::<u8>::default();
   // naive partition: class label per item
   let mut label: std::collections::BTreeMap<u8, usize> = Default::default();
   let mut ids: Vec<(u8, ascent_byods_rels::uf::elems::Id)> = vec![];
   let mut next = 0usize;
   let mut merged_nontrivial = false;
   fn relabel(label: &mut std::collections::BTreeMap<u8, usize>, a: usize, b: usize) {
      for v in label.values_mut() {
         if *v == b {
            *v = a;
         }
      }
   }
   for (step, op) in ops.iter().enumerate() {
      match op {
         UfOp::Add(x) => {
            let was = label.contains_key(x);
            let (_new, id) = catch(|| uf.add(*x)).map_err(|e| format!("add panicked: {e}"))?;
            if !was {
               label.insert(*x, next);
               next += 1;
               ids.push((*x, id));
            }
         },
         UfOp::FindItem(x) => {
            let r = catch(|| uf.find_item(x)).map_err(|e| format!("find_item panicked: {e}"))?;
            if r.is_some() != label.contains_key(x) {
               return Err(format!("find_item({x}) = {:?} (step {step} of {ops:?})", r.is_some()));
            }
         },
         UfOp::UnionAdd(x, y) => {
            catch(|| uf.union_add(*x, *y)).map_err(|e| format!("union_add panicked: {e}"))?;
            for v in [x, y] {
               if !label.contains_key(v) {
                  label.insert(*v, next);
                  next += 1;
                  let id = uf.find_item(v).ok_or("item missing after union_add")?;
                  let _ = id;
               }
            }
            let (a, b) = (label[x], label[y]);
            if a != b {
               let size_a = label.values().filter(|v| **v == a).count();
               let size_b = label.values().filter(|v| **v == b).count();
               if size_a >= 2 && size_b >= 2 {
                  merged_nontrivial = true;
               }
               relabel(&mut label, a, b);
            }
         },
         UfOp::UnionIds(i, j) => {
            if ids.is_empty() {
               continue;
            }
            let (x, idx) = ids[*i as usize % ids.len()];
            let (y, idy) = ids[*j as usize % ids.len()];
            // safety precondition of the id-level API: ids previously returned by `add` of this structure
            catch(|| unsafe { uf.union(idx, idy) }).map_err(|e| format!("union panicked: {e}"))?;
            let (a, b) = (label[&x], label[&y]);
            if a != b {
               relabel(&mut label, a, b);
            }
         },
         UfOp::FindId(i) => {
            if ids.is_empty() {
               continue;
            }
            let (x, idx) = ids[*i as usize % ids.len()];
            let root = catch(|| unsafe { uf.find(idx) }).map_err(|e| format!("find panicked: {e}"))?;
            let via_item = uf.find_item(&x).ok_or("find_item lost an item")?;
            if root != via_item {
               return Err(format!("find(id of {x}) != find_item({x}) (step {step} of {ops:?})"));
            }
         },
      }
      // invariant after every step
      let items: Vec<u8> = label.keys().cloned().collect();
      if uf.len() != items.len() || uf.is_empty() != items.is_empty() {
         return Err(format!("len() = {}, is_empty() = {}, model has {} items (step {step} of {ops:?})", uf.len(), uf.is_empty(), items.len()));
      }
      if !eager && step + 1 != ops.len() {
         continue;
      }
      for a in &items {
         for b in &items {
            let same = uf.find_item(a) == uf.find_item(b);
            if same != (label[a] == label[b]) {
               return Err(format!("{a} and {b}: same class = {same}, model says {} (step {step} of {ops:?})", label[a] == label[b]));
            }
         }
      }
   }
   Ok(merged_nontrivial)
}

/// Histories that build deep trees: classes of equal size are united through their first items (no lookups in
/// between), then a few items are looked up, then the partition is compared.
pub fn tournament_ops(raw: &[(u8, u8, u8)], n: usize) -> Vec<UfOp> {
   let mut classes: Vec<Vec<u8>> = (0..n as u8).map(|i| vec![i]).collect();
   let mut ops = vec![];
   let mut it = raw.iter();
   while classes.len() > 1 {
      let Some(&(a, b, c)) = it.next() else { break };
      let i = a as usize % classes.len();
      // prefer a partner of the same size
      let same: Vec<usize> = (0..classes.len()).filter(|&j| j != i && classes[j].len() == classes[i].len()).collect();
      let j = if !same.is_empty() && c % 4 != 0 {
         same[b as usize % same.len()]
      } else {
         let j = b as usize % (classes.len() - 1);
         if j >= i { j + 1 } else { j }
      };
      // united through the first items (mostly), sometimes through arbitrary members
      let (x, y) = if c % 8 == 7 {
         (classes[i][c as usize % classes[i].len()], classes[j][a as usize % classes[j].len()])
      } else {
         (classes[i][0], classes[j][0])
      };
      ops.push(if c % 2 == 0 { UfOp::UnionAdd(x, y) } else { UfOp::UnionAdd(y, x) });
      let moved = classes[j].clone();
      classes[i].extend(moved);
      classes.remove(j);
   }
   for &(a, _, c) in it.take(4) {
      ops.push(if c % 2 == 0 { UfOp::FindItem(a % n as u8) } else { UfOp::FindId(a) });
   }
   ops
}

pub fn run(a: &Args, rep: &mut Report) {
   // ---- exhaustive part: all add sequences over 3 elements up to length 5 and over 4 elements up to length 4
   let mut exhaustive = 0u64;
   let mut interesting_n = 0u64;
   for (n, max_len) in [(3usize, 5usize), (4, 4)] {
      let pairs: Vec<(u8, u8)> = (0..n as u8).flat_map(|x| (0..n as u8).map(move |y| (x, y))).collect();
      let mut seq: Vec<usize> = vec![];
      // iterative enumeration of all sequences of length 1..=max_len
      fn rec(pairs: &[(u8, u8)], n: usize, seq: &mut Vec<usize>, max_len: usize, exhaustive: &mut u64, interesting: &mut u64, rep: &mut Report) {
         if !seq.is_empty() {
            let ops: Vec<(u8, u8)> = seq.iter().map(|i| pairs[*i]).collect();
            *exhaustive += 1;
            match check_history(n, &ops) {
               Ok(i) => *interesting += i as u64,
               Err(e) => rep.violation(serde_json::json!({"structure": "TrRelUnionFind", "failure": e})),
            }
         }
         if seq.len() < max_len && rep.violations.len() < 5 {
            for i in 0..pairs.len() {
               seq.push(i);
               rec(pairs, n, seq, max_len, exhaustive, interesting, rep);
               seq.pop();
            }
         }
      }
      // full histories are checked step by step inside check_history, so only maximal-length sequences need to be run;
      // shorter ones are their prefixes. Enumerate exactly the sequences of length max_len.
      fn rec_full(pairs: &[(u8, u8)], n: usize, seq: &mut Vec<usize>, max_len: usize, exhaustive: &mut u64, interesting: &mut u64, rep: &mut Report) {
         if seq.len() == max_len {
            let ops: Vec<(u8, u8)> = seq.iter().map(|i| pairs[*i]).collect();
            *exhaustive += 1;
            match check_history(n, &ops) {
               Ok(i) => *interesting += i as u64,
               Err(e) => rep.violation(serde_json::json!({"structure": "TrRelUnionFind", "failure": e})),
            }
            return;
         }
         if rep.violations.len() >= 5 {
            return;
         }
         for i in 0..pairs.len() {
            seq.push(i);
            rec_full(pairs, n, seq, max_len, exhaustive, interesting, rep);
            seq.pop();
         }
      }
      let _ = rec;
      rec_full(&pairs, n, &mut seq, max_len, &mut exhaustive, &mut interesting_n, rep);
   }
   rep.count("exhaustive_sequences(3 elems x len 5, 4 elems x len 4; every prefix checked)", exhaustive);
   rep.exhaustive = false; // the random part below is not exhaustive
   rep.evaluations += exhaustive;
   rep.nontrivial += interesting_n;
   // ---- random part
   let cases = if a.tier == "quick" { 6000 } else { 200000 };
   let mut runner = TestRunner::new(Config { cases, failure_persistence: None, rng_seed: RngSeed::Fixed(a.seed), ..Config::default() });
   let n = 8usize;
   let strat = proptest::collection::vec((0u8..n as u8, 0u8..n as u8, 0u8..10), 1..60).prop_map(move |raw| {
      // bias: reuse earlier elements reversed (back edges), repeats and self pairs
      let mut ops: Vec<(u8, u8)> = vec![];
      for (x, y, k) in raw {
         let op = match k {
            0 | 1 if !ops.is_empty() => {
               let (a, b) = ops[(x as usize) % ops.len()];
               (b, a)
            },
            2 if !ops.is_empty() => ops[(y as usize) % ops.len()],
            3 => (x, x),
            _ => (x, y),
         };
         ops.push(op);
      }
      ops
   });
   let rnd = std::cell::Cell::new(0u64);
   let rnd_int = std::cell::Cell::new(0u64);
   let samples = std::cell::RefCell::new(vec![]);
   let res = runner.run(&strat, |ops| {
      rnd.set(rnd.get() + 1);
      match check_history(n, &ops) {
         Ok(i) => {
            if i {
               rnd_int.set(rnd_int.get() + 1);
               if samples.borrow().len() < 2 {
                  samples.borrow_mut().push(serde_json::json!({"structure": "TrRelUnionFind", "adds": ops.iter().map(|(a, b)| format!("{a}->{b}")).collect::<Vec<_>>()}));
               }
            }
            Ok(())
         },
         Err(e) => Err(TestCaseError::fail(e)),
      }
   });
   if let Err(e) = res {
      rep.violation(serde_json::json!({"structure": "TrRelUnionFind", "failure": format!("{e}")}));
   }
   rep.evaluations += rnd.get();
   rep.nontrivial += rnd_int.get();
   // ---- large classes: a ring of m members (one class after the closing edge), then edges among ring members and a few
   // outside elements, biased towards back edges that close cycles through the large class; sizes around powers of two
   {
      let cases = if a.tier == "quick" { 160 } else { 3000 };
      let mut runner = TestRunner::new(Config { cases, failure_persistence: None, rng_seed: RngSeed::Fixed(a.seed ^ 0xB16), ..Config::default() });
      let strat = (prop_oneof![2 => 0u32..6, 3 => 4u32..7], -3i32..=3, proptest::collection::vec((any::<u8>(), any::<u8>(), 0u8..10), 6..18), any::<bool>(), any::<u32>()).prop_map(|(k, d, mut raw, structured, sel)| {
         let m = (((2i32 << k) + d).clamp(2, 130)) as usize; // 2, 4, .., 128 (+- 3), up to 130
         if structured {
            // an element that enters the ring and has a successor of its own, an element the ring leads to that has a
            // predecessor of its own, then (somewhere later) the edge between the two that closes a cycle through the ring:
            // kinds 10.. are taken literally below
            let (y, x, s, p_) = (m as u8 + (sel % 8) as u8, m as u8 + ((sel >> 3) % 8) as u8, m as u8 + ((sel >> 6) % 8) as u8, m as u8 + ((sel >> 9) % 8) as u8);
            let (ri, rj) = (((sel >> 12) as usize % m) as u8, ((sel >> 20) as usize % m) as u8);
            let mut pat = vec![(y, ri, 10u8), (rj, x, 10), (y, s, 10), (p_, x, 10)];
            let rot = (sel >> 28) as usize % 4;
            pat.rotate_left(rot);
            let at = raw.len() / 3;
            for (i, e) in pat.into_iter().enumerate() {
               raw.insert((at + i).min(raw.len()), e);
            }
            let close_at = (at + 4 + (sel as usize % 3)).min(raw.len());
            raw.insert(close_at, (x, y, 10));
         }
         let n = m + 8;
         let mut prefix: Vec<(u8, u8)> = (0..m - 1).map(|i| (i as u8, i as u8 + 1)).collect();
         prefix.push((m as u8 - 1, 0));
         let elem = |v: u8| -> u8 { if v % 10 < 3 { v % m as u8 } else { m as u8 + v % 8 } };
         let mut ops: Vec<(u8, u8)> = vec![];
         for (x, y, kind) in raw {
            let op = match kind {
               0 | 1 | 2 if !ops.is_empty() => {
                  let (a, b) = ops[(x as usize) % ops.len()];
                  (b, a)
               },
               3 => (elem(x), elem(x)),
               10 => (x, y),
               _ => (elem(x), elem(y)),
            };
            ops.push(op);
         }
         (n, m, prefix, ops)
      });
      let big = std::cell::Cell::new(0u64);
      let big_int = std::cell::Cell::new(0u64);
      let res = runner.run(&strat, |(n, m, prefix, ops)| {
         big.set(big.get() + 1);
         match check_history_after(n, &prefix, &ops) {
            Ok(i) => {
               if i {
                  big_int.set(big_int.get() + 1);
               }
               Ok(())
            },
            Err(e) => Err(TestCaseError::fail(format!("after a ring of {m} members: {e}"))),
         }
      });
      if let Err(e) = res {
         rep.violation(serde_json::json!({"structure": "TrRelUnionFind", "failure": format!("{e}")}));
      }
      rep.evaluations += big.get();
      rep.nontrivial += big_int.get();
      rep.count("large_class_histories(ring of 2..130 members, then 6-17 adds)", big.get());
   }
   rep.count("random_trrel_uf_histories", rnd.get());
   rep.count("histories_with_cycle_closing_add_over_merged_classes", rnd_int.get() + interesting_n);
   // ---- UnionFind
   let op = prop_oneof![
      4 => (0u8..10).prop_map(UfOp::Add),
      2 => (0u8..12).prop_map(UfOp::FindItem),
      5 => (0u8..10, 0u8..10).prop_map(|(a, b)| UfOp::UnionAdd(a, b)),
      3 => (any::<u8>(), any::<u8>()).prop_map(|(a, b)| UfOp::UnionIds(a, b)),
      2 => any::<u8>().prop_map(UfOp::FindId),
   ];
   let strat = (proptest::collection::vec(op, 1..50), any::<bool>());
   let mut runner = TestRunner::new(Config { cases, failure_persistence: None, rng_seed: RngSeed::Fixed(a.seed ^ 0x5151), ..Config::default() });
   let ufn = std::cell::Cell::new(0u64);
   let ufi = std::cell::Cell::new(0u64);
   let res = runner.run(&strat, |(ops, eager)| {
      ufn.set(ufn.get() + 1);
      match check_uf_mode(&ops, eager) {
         Ok(i) => {
            if i {
               ufi.set(ufi.get() + 1);
               if samples.borrow().len() < 4 {
                  samples.borrow_mut().push(serde_json::json!({"structure": "UnionFind", "ops": format!("{ops:?}")}));
               }
            }
            Ok(())
         },
         Err(e) => Err(TestCaseError::fail(e)),
      }
   });
   if let Err(e) = res {
      rep.violation(serde_json::json!({"structure": "UnionFind", "failure": format!("{e}")}));
   }
   // deep trees: tournaments over 8-24 items, partition compared at the end only
   let strat = (proptest::collection::vec((any::<u8>(), any::<u8>(), any::<u8>()), 12..48), 8usize..=24);
   let mut runner = TestRunner::new(Config { cases: cases * 2, failure_persistence: None, rng_seed: RngSeed::Fixed(a.seed ^ 0x7117), ..Config::default() });
   let tn = std::cell::Cell::new(0u64);
   let tdeep = std::cell::Cell::new(0u64);
   let res_t = runner.run(&strat, |(raw, n)| {
      tn.set(tn.get() + 1);
      let ops = tournament_ops(&raw, n);
      let unions = ops.iter().filter(|o| matches!(o, UfOp::UnionAdd(..))).count();
      match check_uf_mode(&ops, false) {
         Ok(_) => {
            if unions >= 10 {
               tdeep.set(tdeep.get() + 1);
               if samples.borrow().len() < 5 {
                  samples.borrow_mut().push(serde_json::json!({"structure": "UnionFind (tournament, partition compared at the end)", "ops": format!("{ops:?}")}));
               }
            }
            Ok(())
         },
         Err(e) => Err(TestCaseError::fail(e)),
      }
   });
   if let Err(e) = res_t {
      rep.violation(serde_json::json!({"structure": "UnionFind (tournament history)", "failure": format!("{e}")}));
   }
   rep.evaluations += tn.get();
   rep.nontrivial += tdeep.get();
   rep.count("unionfind_tournament_histories", tn.get());
   rep.count("unionfind_tournaments_with_10+_unions", tdeep.get());
   rep.evaluations += ufn.get();
   rep.nontrivial += ufi.get();
   rep.count("random_unionfind_histories", ufn.get());
   rep.count("unionfind_histories_merging_two_multi_element_classes", ufi.get());
   rep.samples = samples.into_inner();
}
