//! C19: the index building blocks as abstract multimaps / sets through insert, merge, freeze and concurrent inserts.

use std::collections::BTreeMap;

use ascent::internal::*;
use proptest::prelude::*;
use proptest::test_runner::{Config, RngSeed, TestRunner};

use crate::{catch, Args, Report};

type Mm = BTreeMap<u8, Vec<u8>>;

/// Uniform view of one index type with u8 keys and values.
pub trait Ix: Default + Send + Sync {
   const NAME: &'static str;
   /// values under a key form a set
   const SET_VALUED: bool = false;
   /// one value per key (full index); keys are unique across versions by the caller's protocol
   const FULL: bool = false;
   /// no key: everything lives under one bucket
   const NOKEY: bool = false;
   const CONCURRENT: bool = false;
   fn insert_mut(&mut self, k: u8, v: u8);
   fn insert_shared(&self, _k: u8, _v: u8) { unreachable!() }
   fn insert_if_absent_mut(&mut self, _k: u8, _v: u8) -> bool { unreachable!() }
   fn insert_if_absent_shared(&self, _k: u8, _v: u8) -> bool { unreachable!() }
   fn contains(&self, _k: u8) -> bool { unreachable!() }
   fn merge(new: &mut Self, delta: &mut Self, total: &mut Self);
   fn freeze(&mut self) {}
   fn unfreeze(&mut self) {}
   fn get(&self, k: u8) -> Option<Vec<u8>>;
   fn all(&self) -> Vec<(u8, Vec<u8>)>;
   fn is_empty(&self) -> bool;
   /// reads through the combined (total + delta) view
   fn combined_get(total: &Self, delta: &Self, k: u8) -> Option<Vec<u8>>;
   fn combined_all(total: &Self, delta: &Self) -> Vec<(u8, Vec<u8>)>;
   /// the same reads through the parallel interface (`c_index_get` / `c_iter_all`), which generated parallel code uses;
   /// the serial types have no such interface and answer through the serial one
   fn c_get(&self, k: u8) -> Option<Vec<u8>> { self.get(k) }
   fn c_all(&self) -> Vec<(u8, Vec<u8>)> { self.all() }
   fn c_combined_get(total: &Self, delta: &Self, k: u8) -> Option<Vec<u8>> { Self::combined_get(total, delta, k) }
   fn c_combined_all(total: &Self, delta: &Self) -> Vec<(u8, Vec<u8>)> { Self::combined_all(total, delta) }
}

fn sorted(mut v: Vec<u8>) -> Vec<u8> {
   v.sort();
   v
}

macro_rules! keyed_reads {
   () => {
      fn get(&self, k: u8) -> Option<Vec<u8>> { RelIndexRead::index_get(self, &(k,)).map(|it| sorted(it.map(|v| v.0).collect())) }
      fn all(&self) -> Vec<(u8, Vec<u8>)> { RelIndexReadAll::iter_all(self).map(|(k, vs)| (k.0, sorted(vs.map(|v| v.0).collect()))).collect() }
      fn is_empty(&self) -> bool { RelIndexRead::is_empty(self) }
      fn combined_get(total: &Self, delta: &Self, k: u8) -> Option<Vec<u8>> {
         RelIndexCombined::new(total, delta).index_get(&(k,)).map(|it| sorted(it.map(|v| v.0).collect()))
      }
      fn combined_all(total: &Self, delta: &Self) -> Vec<(u8, Vec<u8>)> {
         RelIndexCombined::new(total, delta).iter_all().map(|(k, vs)| (k.0, sorted(vs.map(|v| v.0).collect()))).collect()
      }
   };
}

impl Ix for RelIndexType1<(u8,), (u8,)> {
   const NAME: &'static str = "RelIndexType1 (hash -> Vec)";
   fn insert_mut(&mut self, k: u8, v: u8) { RelIndexWrite::index_insert(self, (k,), (v,)) }
   fn merge(new: &mut Self, delta: &mut Self, total: &mut Self) { RelIndexMerge::merge_delta_to_total_new_to_delta(new, delta, total) }
   keyed_reads!();
}

impl Ix for LatticeIndexType<(u8,), (u8,)> {
   const NAME: &'static str = "LatticeIndexType (hash -> HashSet)";
   const SET_VALUED: bool = true;
   fn insert_mut(&mut self, k: u8, v: u8) { RelIndexWrite::index_insert(self, (k,), (v,)) }
   fn merge(new: &mut Self, delta: &mut Self, total: &mut Self) { RelIndexMerge::merge_delta_to_total_new_to_delta(new, delta, total) }
   keyed_reads!();
}

impl Ix for CRelIndex<(u8,), (u8,)> {
   const NAME: &'static str = "CRelIndex (DashMap -> Vec)";
   const CONCURRENT: bool = true;
   fn insert_mut(&mut self, k: u8, v: u8) { RelIndexWrite::index_insert(self, (k,), (v,)) }
   fn insert_shared(&self, k: u8, v: u8) { CRelIndexWrite::index_insert(self, (k,), (v,)) }
   fn merge(new: &mut Self, delta: &mut Self, total: &mut Self) { RelIndexMerge::merge_delta_to_total_new_to_delta(new, delta, total) }
   fn freeze(&mut self) { Freezable::freeze(self) }
   fn unfreeze(&mut self) { Freezable::unfreeze(self) }
   fn c_get(&self, k: u8) -> Option<Vec<u8>> {
      use rayon::prelude::*;
      CRelIndexRead::c_index_get(self, &(k,)).map(|it| sorted(it.map(|v| v.0).collect::<Vec<u8>>()))
   }
   fn c_all(&self) -> Vec<(u8, Vec<u8>)> {
      use rayon::prelude::*;
      CRelIndexReadAll::c_iter_all(self).map(|(k, vs)| (k.0, sorted(vs.map(|v| v.0).collect::<Vec<u8>>()))).collect()
   }
   fn c_combined_get(total: &Self, delta: &Self, k: u8) -> Option<Vec<u8>> {
      use rayon::prelude::*;
      CRelIndexRead::c_index_get(&RelIndexCombined::new(total, delta), &(k,)).map(|it| sorted(it.map(|v| v.0).collect::<Vec<u8>>()))
   }
   fn c_combined_all(total: &Self, delta: &Self) -> Vec<(u8, Vec<u8>)> {
      use rayon::prelude::*;
      CRelIndexReadAll::c_iter_all(&RelIndexCombined::new(total, delta)).map(|(k, vs)| (k.0, sorted(vs.map(|v| v.0).collect::<Vec<u8>>()))).collect()
   }
   keyed_reads!();
}

impl Ix for CLatIndex<(u8,), (u8,)> {
   const NAME: &'static str = "CLatIndex (DashMap -> HashSet)";
   const SET_VALUED: bool = true;
   const CONCURRENT: bool = true;
   fn insert_mut(&mut self, k: u8, v: u8) { RelIndexWrite::index_insert(self, (k,), (v,)) }
   fn insert_shared(&self, k: u8, v: u8) { CRelIndexWrite::index_insert(self, (k,), (v,)) }
   fn merge(new: &mut Self, delta: &mut Self, total: &mut Self) { RelIndexMerge::merge_delta_to_total_new_to_delta(new, delta, total) }
   fn freeze(&mut self) { Freezable::freeze(self) }
   fn unfreeze(&mut self) { Freezable::unfreeze(self) }
   fn get(&self, k: u8) -> Option<Vec<u8>> { RelIndexRead::index_get(self, &(k,)).map(|it| sorted(it.map(|v| v.0).collect())) }
   fn all(&self) -> Vec<(u8, Vec<u8>)> { RelIndexReadAll::iter_all(self).map(|(k, vs)| (k.0, sorted(vs.map(|v| v.0).collect()))).collect() }
   fn is_empty(&self) -> bool { RelIndexRead::is_empty(self) }
   fn combined_get(total: &Self, delta: &Self, k: u8) -> Option<Vec<u8>> {
      RelIndexCombined::new(total, delta).index_get(&(k,)).map(|it| sorted(it.map(|v| v.0).collect()))
   }
   fn c_get(&self, k: u8) -> Option<Vec<u8>> {
      use rayon::prelude::*;
      CRelIndexRead::c_index_get(self, &(k,)).map(|it| sorted(it.map(|v| v.0).collect::<Vec<u8>>()))
   }
   fn c_all(&self) -> Vec<(u8, Vec<u8>)> {
      use rayon::prelude::*;
      CRelIndexReadAll::c_iter_all(self).map(|(k, vs)| (k.0, sorted(vs.map(|v| v.0).collect::<Vec<u8>>()))).collect()
   }
   fn c_combined_get(total: &Self, delta: &Self, k: u8) -> Option<Vec<u8>> {
      use rayon::prelude::*;
      CRelIndexRead::c_index_get(&RelIndexCombined::new(total, delta), &(k,)).map(|it| sorted(it.map(|v| v.0).collect::<Vec<u8>>()))
   }
   fn c_combined_all(total: &Self, delta: &Self) -> Vec<(u8, Vec<u8>)> {
      use rayon::prelude::*;
      CRelIndexReadAll::c_iter_all(&RelIndexCombined::new(total, delta)).map(|(k, vs)| (k.0, sorted(vs.map(|v| v.0).collect::<Vec<u8>>()))).collect()
   }
   fn combined_all(total: &Self, delta: &Self) -> Vec<(u8, Vec<u8>)> {
      // (CLatIndex::iter_all yields values, not references: the combined view is read per version)
      let mut out = total.all();
      out.extend(delta.all());
      out
   }
}

macro_rules! full_reads {
   () => {
      fn get(&self, k: u8) -> Option<Vec<u8>> { RelIndexRead::index_get(self, &(k,)).map(|it| it.map(|v| *v).collect()) }
      fn is_empty(&self) -> bool { RelIndexRead::is_empty(self) }
      fn contains(&self, k: u8) -> bool { RelFullIndexRead::contains_key(self, &(k,)) }
      fn combined_get(total: &Self, delta: &Self, k: u8) -> Option<Vec<u8>> {
         RelIndexCombined::new(total, delta).index_get(&(k,)).map(|it| sorted(it.map(|v| *v).collect()))
      }
   };
}

impl Ix for RelFullIndexType<(u8,), u8> {
   const NAME: &'static str = "RelFullIndexType (hashbrown map)";
   const FULL: bool = true;
   fn insert_mut(&mut self, k: u8, v: u8) { RelIndexWrite::index_insert(self, (k,), v) }
   fn insert_if_absent_mut(&mut self, k: u8, v: u8) -> bool { RelFullIndexWrite::insert_if_not_present(self, &(k,), v) }
   fn merge(new: &mut Self, delta: &mut Self, total: &mut Self) { RelIndexMerge::merge_delta_to_total_new_to_delta(new, delta, total) }
   fn all(&self) -> Vec<(u8, Vec<u8>)> { RelIndexReadAll::iter_all(self).map(|(k, vs)| (k.0, vs.map(|v| *v).collect())).collect() }
   fn combined_all(total: &Self, delta: &Self) -> Vec<(u8, Vec<u8>)> {
      RelIndexCombined::new(total, delta).iter_all().map(|(k, vs)| (k.0, vs.map(|v| *v).collect())).collect()
   }
   full_reads!();
}

impl Ix for CRelFullIndex<(u8,), u8> {
   const NAME: &'static str = "CRelFullIndex (DashMap)";
   const FULL: bool = true;
   const CONCURRENT: bool = true;
   fn insert_mut(&mut self, k: u8, v: u8) { RelIndexWrite::index_insert(self, (k,), v) }
   fn insert_shared(&self, k: u8, v: u8) { CRelIndexWrite::index_insert(self, (k,), v) }
   fn insert_if_absent_mut(&mut self, k: u8, v: u8) -> bool { RelFullIndexWrite::insert_if_not_present(self, &(k,), v) }
   fn insert_if_absent_shared(&self, k: u8, v: u8) -> bool { CRelFullIndexWrite::insert_if_not_present(self, &(k,), v) }
   fn merge(new: &mut Self, delta: &mut Self, total: &mut Self) { RelIndexMerge::merge_delta_to_total_new_to_delta(new, delta, total) }
   fn freeze(&mut self) { Freezable::freeze(self) }
   fn unfreeze(&mut self) { Freezable::unfreeze(self) }
   fn all(&self) -> Vec<(u8, Vec<u8>)> { RelIndexReadAll::iter_all(self).map(|(k, vs)| (k.0, vs.collect())).collect() }
   fn combined_all(total: &Self, delta: &Self) -> Vec<(u8, Vec<u8>)> {
      let mut out = total.all();
      out.extend(delta.all());
      out
   }
   fn c_get(&self, k: u8) -> Option<Vec<u8>> {
      use rayon::prelude::*;
      CRelIndexRead::c_index_get(self, &(k,)).map(|it| it.map(|v| *v).collect::<Vec<u8>>())
   }
   fn c_all(&self) -> Vec<(u8, Vec<u8>)> {
      use rayon::prelude::*;
      CRelIndexReadAll::c_iter_all(self).map(|(k, vs)| (k.0, vs.map(|v| *v).collect::<Vec<u8>>())).collect()
   }
   fn c_combined_get(total: &Self, delta: &Self, k: u8) -> Option<Vec<u8>> {
      use rayon::prelude::*;
      CRelIndexRead::c_index_get(&RelIndexCombined::new(total, delta), &(k,)).map(|it| sorted(it.map(|v| *v).collect::<Vec<u8>>()))
   }
   fn c_combined_all(total: &Self, delta: &Self) -> Vec<(u8, Vec<u8>)> {
      use rayon::prelude::*;
      CRelIndexReadAll::c_iter_all(&RelIndexCombined::new(total, delta)).map(|(k, vs)| (k.0, vs.map(|v| *v).collect::<Vec<u8>>())).collect()
   }
   full_reads!();
}

impl Ix for RelNoIndexType {
   const NAME: &'static str = "RelNoIndexType (Vec<usize>)";
   const NOKEY: bool = true;
   fn insert_mut(&mut self, _k: u8, v: u8) { RelIndexWrite::index_insert(self, (), v as usize) }
   fn merge(new: &mut Self, delta: &mut Self, total: &mut Self) { RelIndexMerge::merge_delta_to_total_new_to_delta(new, delta, total) }
   fn get(&self, _k: u8) -> Option<Vec<u8>> { Some(sorted(self.iter().map(|v| *v as u8).collect())) }
   fn all(&self) -> Vec<(u8, Vec<u8>)> { vec![(0, sorted(self.iter().map(|v| *v as u8).collect()))] }
   fn is_empty(&self) -> bool { Vec::is_empty(self) }
   fn combined_get(total: &Self, delta: &Self, k: u8) -> Option<Vec<u8>> {
      let mut v = total.get(k).unwrap_or_default();
      v.extend(delta.get(k).unwrap_or_default());
      Some(sorted(v))
   }
   fn combined_all(total: &Self, delta: &Self) -> Vec<(u8, Vec<u8>)> { vec![(0, Self::combined_get(total, delta, 0).unwrap())] }
}

impl Ix for CRelNoIndex<(u8,)> {
   const NAME: &'static str = "CRelNoIndex (per-thread shards)";
   const NOKEY: bool = true;
   const CONCURRENT: bool = true;
   fn insert_mut(&mut self, _k: u8, v: u8) { RelIndexWrite::index_insert(self, (), (v,)) }
   fn insert_shared(&self, _k: u8, v: u8) { CRelIndexWrite::index_insert(self, (), (v,)) }
   fn merge(new: &mut Self, delta: &mut Self, total: &mut Self) { RelIndexMerge::merge_delta_to_total_new_to_delta(new, delta, total) }
   fn freeze(&mut self) { Freezable::freeze(self) }
   fn unfreeze(&mut self) { Freezable::unfreeze(self) }
   fn get(&self, _k: u8) -> Option<Vec<u8>> { RelIndexRead::index_get(self, &()).map(|it| sorted(it.map(|v| v.0).collect())) }
   fn all(&self) -> Vec<(u8, Vec<u8>)> { RelIndexReadAll::iter_all(self).map(|(_, vs)| (0, sorted(vs.map(|v| v.0).collect()))).collect() }
   fn is_empty(&self) -> bool { RelIndexRead::is_empty(self) }
   fn c_get(&self, _k: u8) -> Option<Vec<u8>> {
      use rayon::prelude::*;
      CRelIndexRead::c_index_get(self, &()).map(|it| sorted(it.map(|v| v.0).collect::<Vec<u8>>()))
   }
   fn c_all(&self) -> Vec<(u8, Vec<u8>)> {
      use rayon::prelude::*;
      CRelIndexReadAll::c_iter_all(self).map(|(_, vs)| (0u8, sorted(vs.map(|v| v.0).collect::<Vec<u8>>()))).collect()
   }
   fn c_combined_get(total: &Self, delta: &Self, _k: u8) -> Option<Vec<u8>> {
      use rayon::prelude::*;
      CRelIndexRead::c_index_get(&RelIndexCombined::new(total, delta), &()).map(|it| sorted(it.map(|v| v.0).collect::<Vec<u8>>()))
   }
   fn c_combined_all(total: &Self, delta: &Self) -> Vec<(u8, Vec<u8>)> {
      use rayon::prelude::*;
      CRelIndexReadAll::c_iter_all(&RelIndexCombined::new(total, delta)).map(|(_, vs)| (0u8, sorted(vs.map(|v| v.0).collect::<Vec<u8>>()))).collect()
   }
   fn combined_get(total: &Self, delta: &Self, _k: u8) -> Option<Vec<u8>> {
      RelIndexCombined::new(total, delta).index_get(&()).map(|it| sorted(it.map(|v| v.0).collect()))
   }
   fn combined_all(total: &Self, delta: &Self) -> Vec<(u8, Vec<u8>)> {
      RelIndexCombined::new(total, delta).iter_all().map(|(_, vs)| (0, sorted(vs.map(|v| v.0).collect()))).collect()
   }
}

#[derive(Clone, Debug)]
pub enum Op {
   Insert(u8, u8),
   InsertShared(u8, u8),
   InsertIfAbsent(u8, u8),
   Merge,
   Lookup(u8),
   IterAll,
   FreezeCycle,
}

fn model_insert<T: Ix>(m: &mut Mm, k: u8, v: u8) {
   let k = if T::NOKEY { 0 } else { k };
   let e = m.entry(k).or_default();
   if T::SET_VALUED {
      if !e.contains(&v) {
         e.push(v);
      }
   } else if T::FULL {
      *e = vec![v];
   } else {
      e.push(v);
   }
}

fn model_get(m: &Mm, k: u8) -> Option<Vec<u8>> { m.get(&k).map(|v| sorted(v.clone())) }

fn check_reads<T: Ix>(what: &str, ix: &T, m: &Mm, ops: &[Op], step: usize) -> Result<(), String> {
   // iteration returns every entry once
   let all = catch(|| ix.all()).map_err(|e| format!("{}: iter_all on {what} panicked: {e}", T::NAME))?;
   let mut by_key: Mm = BTreeMap::new();
   for (k, vs) in all {
      by_key.entry(k).or_default().extend(vs);
   }
   by_key.retain(|_, v| !v.is_empty());
   let by_key: Mm = by_key.into_iter().map(|(k, v)| (k, sorted(v))).collect();
   let want: Mm = m.iter().filter(|(_, v)| !v.is_empty()).map(|(k, v)| (*k, sorted(v.clone()))).collect();
   if by_key != want {
      return Err(format!("{}: iter_all on {what} = {by_key:?}, model {want:?} (step {step} of {ops:?})", T::NAME));
   }
   for k in 0..7u8 {
      let got = catch(|| ix.get(k)).map_err(|e| format!("{}: index_get panicked: {e}", T::NAME))?;
      let kk = if T::NOKEY { 0 } else { k };
      let want = model_get(m, kk);
      let got_norm = got.clone().filter(|v| !v.is_empty() || T::NOKEY);
      let want_norm = if T::NOKEY { Some(want.clone().unwrap_or_default()) } else { want.clone() };
      if got_norm != want_norm {
         return Err(format!("{}: index_get({k}) on {what} = {got:?}, model {want:?} (step {step} of {ops:?})", T::NAME));
      }
      if T::FULL {
         let c = catch(|| ix.contains(k)).map_err(|e| format!("{}: contains_key panicked: {e}", T::NAME))?;
         if c != want.is_some() {
            return Err(format!("{}: contains_key({k}) on {what} = {c} (step {step} of {ops:?})", T::NAME));
         }
      }
   }
   if T::CONCURRENT && step % 3 == 0 {
      // the parallel read interface answers like the model too (at every third step: each read enters the rayon pool)
      for k in 0..7u8 {
         let got = catch(|| ix.c_get(k)).map_err(|e| format!("{}: c_index_get panicked: {e}", T::NAME))?;
         let kk = if T::NOKEY { 0 } else { k };
         let want = model_get(m, kk);
         let got_norm = got.clone().filter(|v| !v.is_empty() || T::NOKEY);
         let want_norm = if T::NOKEY { Some(want.clone().unwrap_or_default()) } else { want.clone() };
         if got_norm != want_norm {
            return Err(format!("{}: c_index_get({k}) on {what} = {got:?}, model {want:?} (step {step} of {ops:?})", T::NAME));
         }
      }
      let mut by_key: Mm = BTreeMap::new();
      for (k, vs) in catch(|| ix.c_all()).map_err(|e| format!("{}: c_iter_all on {what} panicked: {e}", T::NAME))? {
         by_key.entry(k).or_default().extend(vs);
      }
      let by_key: Mm = by_key.into_iter().filter(|(_, v)| !v.is_empty()).map(|(k, v)| (k, sorted(v))).collect();
      if by_key != want {
         return Err(format!("{}: c_iter_all on {what} = {by_key:?}, model {want:?} (step {step} of {ops:?})", T::NAME));
      }
   }
   let e = catch(|| ix.is_empty()).map_err(|e| format!("{}: is_empty panicked: {e}", T::NAME))?;
   if e && !want.is_empty() {
      return Err(format!("{}: is_empty() on {what} is true but the model holds {want:?} (step {step} of {ops:?})", T::NAME));
   }
   Ok(())
}

pub struct Outcome {
   pub merges: usize,
   pub swap_path: bool,
   pub no_swap_path: bool,
   pub both_sides_key: bool,
}

pub fn run_history<T: Ix>(ops: &[Op]) -> Result<Outcome, String> {
   // all three versions are created in the same pool, as generated code does for the default provider
   run_history_with::<T>(ops, T::default(), T::default(), T::default(), false)
}

fn pool_of(n: usize) -> std::sync::Arc<rayon::ThreadPool> {
   static POOLS: std::sync::Mutex<BTreeMap<usize, std::sync::Arc<rayon::ThreadPool>>> = std::sync::Mutex::new(BTreeMap::new());
   POOLS.lock().unwrap().entry(n).or_insert_with(|| std::sync::Arc::new(rayon::ThreadPoolBuilder::new().num_threads(n).build().unwrap())).clone()
}

/// The three versions are created in pools of different sizes (a custom provider that re-exports these types keeps the
/// `total` created when the program value was constructed, while delta and new are created in the pool of `run()`), the
/// history runs inside a fourth pool, and every insert is made by the worker whose index the operation selects.
pub fn run_history_in_pools<T: Ix + Send>(ops: &[Op], pn: usize, pd: usize, pt: usize, px: usize) -> Result<Outcome, String> {
   let new = pool_of(pn).install(T::default);
   let delta = pool_of(pd).install(T::default);
   let total = pool_of(pt).install(T::default);
   let ops: Vec<Op> = ops.to_vec();
   pool_of(px).install(move || run_history_with::<T>(&ops, new, delta, total, true))
}

/// runs `f` on the worker with index `target % current pool size` of the current pool
fn on_worker<R: Send>(target: usize, f: impl FnOnce() -> R + Send) -> R {
   let n = rayon::current_num_threads().max(1);
   let cell = std::sync::Mutex::new((Some(f), None));
   rayon::broadcast(|ctx| {
      if ctx.index() == target % n {
         let mut g = cell.lock().unwrap();
         if let Some(f) = g.0.take() {
            g.1 = Some(f());
         }
      }
   });
   let r = cell.into_inner().unwrap().1;
   r.expect("broadcast reached the target worker")
}

fn run_history_with<T: Ix>(ops: &[Op], new: T, delta: T, total: T, spread: bool) -> Result<Outcome, String> {
   let (mut new, mut delta, mut total) = (new, delta, total);
   let (mut mn, mut md, mut mt): (Mm, Mm, Mm) = Default::default();
   let mut out = Outcome { merges: 0, swap_path: false, no_swap_path: false, both_sides_key: false };
   for (step, op) in ops.iter().enumerate() {
      match op {
         Op::Insert(k, v) | Op::InsertShared(k, v) | Op::InsertIfAbsent(k, v) => {
            let key = if T::NOKEY { 0 } else { *k };
            let present_anywhere = mn.contains_key(&key) || md.contains_key(&key) || mt.contains_key(&key);
            // full-index protocol: a key is inserted once for a plain relation; the key index of a lattice gets the
            // same (key, row number) again whenever the row is improved, also when the key is already in delta or total
            let mut relatticed: Option<u8> = None;
            if T::FULL && present_anywhere && !matches!(op, Op::InsertIfAbsent(..)) {
               let held = mn.get(&key).or(md.get(&key)).or(mt.get(&key)).and_then(|vs| vs.first().copied());
               match held {
                  Some(hv) if *v % 2 == 0 && !mn.contains_key(&key) => relatticed = Some(hv),
                  _ => continue,
               }
            }
            let (k, v) = (k, &relatticed.unwrap_or(*v));
            match op {
               Op::InsertIfAbsent(..) if T::FULL => {
                  let in_new = mn.contains_key(&key);
                  if (md.contains_key(&key) || mt.contains_key(&key)) && !in_new {
                     // generated code checks total and delta first
                     continue;
                  }
                  let shared = T::CONCURRENT && (*v % 2 == 0);
                  let r = catch(|| if shared { new.insert_if_absent_shared(*k, *v) } else { new.insert_if_absent_mut(*k, *v) })
                     .map_err(|e| format!("{}: insert_if_not_present panicked: {e}", T::NAME))?;
                  if r == in_new {
                     return Err(format!("{}: insert_if_not_present({k}) returned {r}, key was {} (step {step} of {ops:?})", T::NAME, if in_new { "present" } else { "absent" }));
                  }
                  if !in_new {
                     model_insert::<T>(&mut mn, *k, *v);
                  }
               },
               Op::InsertIfAbsent(..) => continue,
               Op::InsertShared(..) if T::CONCURRENT => {
                  let target = (*k as usize) * 3 + *v as usize;
                  catch(|| if spread { on_worker(target, || new.insert_shared(*k, *v)) } else { new.insert_shared(*k, *v) })
                     .map_err(|e| format!("{}: concurrent-path insert panicked: {e}", T::NAME))?;
                  model_insert::<T>(&mut mn, *k, *v);
               },
               _ => {
                  let target = (*k as usize) * 3 + *v as usize;
                  catch(|| if spread { on_worker(target, || new.insert_mut(*k, *v)) } else { new.insert_mut(*k, *v) })
                     .map_err(|e| format!("{}: insert panicked: {e}", T::NAME))?;
                  model_insert::<T>(&mut mn, *k, *v);
               },
            }
         },
         Op::Merge => {
            out.merges += 1;
            let dl: usize = md.len();
            let tl: usize = mt.len();
            if dl > tl {
               out.swap_path = true;
            } else if dl > 0 {
               out.no_swap_path = true;
            }
            if md.keys().any(|k| mt.contains_key(k)) {
               out.both_sides_key = true;
            }
            catch(|| T::merge(&mut new, &mut delta, &mut total)).map_err(|e| format!("{}: merge panicked: {e} (step {step} of {ops:?})", T::NAME))?;
            for (k, vs) in std::mem::take(&mut md) {
               for v in vs {
                  model_insert::<T>(&mut mt, k, v);
               }
            }
            md = std::mem::take(&mut mn);
         },
         Op::Lookup(_) | Op::IterAll | Op::FreezeCycle => {
            total.freeze();
            delta.freeze();
            check_reads("total", &total, &mt, ops, step)?;
            check_reads("delta", &delta, &md, ops, step)?;
            // combined view
            for k in 0..7u8 {
               let kk = if T::NOKEY { 0 } else { k };
               let mut want = mt.get(&kk).cloned().unwrap_or_default();
               want.extend(md.get(&kk).cloned().unwrap_or_default());
               let want = sorted(want);
               let got = catch(|| T::combined_get(&total, &delta, k)).map_err(|e| format!("{}: combined index_get panicked: {e}", T::NAME))?;
               if got.clone().unwrap_or_default() != want || (got.is_none() && !want.is_empty()) {
                  return Err(format!("{}: combined index_get({k}) = {got:?}, model {want:?} (step {step} of {ops:?})", T::NAME));
               }
            }
            if T::CONCURRENT && step % 2 == 0 {
               for k in 0..7u8 {
                  let kk = if T::NOKEY { 0 } else { k };
                  let mut want = mt.get(&kk).cloned().unwrap_or_default();
                  want.extend(md.get(&kk).cloned().unwrap_or_default());
                  let want = sorted(want);
                  let got = catch(|| T::c_combined_get(&total, &delta, k)).map_err(|e| format!("{}: combined c_index_get panicked: {e}", T::NAME))?;
                  if got.clone().unwrap_or_default() != want || (got.is_none() && !want.is_empty()) {
                     return Err(format!("{}: combined c_index_get({k}) = {got:?}, model {want:?} (total {mt:?}, delta {md:?}; step {step} of {ops:?})", T::NAME));
                  }
               }
               let mut comb: Mm = BTreeMap::new();
               for (k, vs) in catch(|| T::c_combined_all(&total, &delta)).map_err(|e| format!("{}: combined c_iter_all panicked: {e}", T::NAME))? {
                  comb.entry(k).or_default().extend(vs);
               }
               let comb: Mm = comb.into_iter().filter(|(_, v)| !v.is_empty()).map(|(k, v)| (k, sorted(v))).collect();
               let mut want: Mm = BTreeMap::new();
               for m in [&mt, &md] {
                  for (k, vs) in m {
                     want.entry(*k).or_default().extend(vs.iter().cloned());
                  }
               }
               let want: Mm = want.into_iter().filter(|(_, v)| !v.is_empty()).map(|(k, v)| (k, sorted(v))).collect();
               if comb != want {
                  return Err(format!("{}: combined c_iter_all = {comb:?}, model {want:?} (step {step} of {ops:?})", T::NAME));
               }
            }
            let mut comb: Mm = BTreeMap::new();
            for (k, vs) in catch(|| T::combined_all(&total, &delta)).map_err(|e| format!("{}: combined iter_all panicked: {e}", T::NAME))? {
               comb.entry(k).or_default().extend(vs);
            }
            let comb: Mm = comb.into_iter().filter(|(_, v)| !v.is_empty()).map(|(k, v)| (k, sorted(v))).collect();
            let mut want: Mm = BTreeMap::new();
            for m in [&mt, &md] {
               for (k, vs) in m {
                  want.entry(*k).or_default().extend(vs.iter().cloned());
               }
            }
            let want: Mm = want.into_iter().filter(|(_, v)| !v.is_empty()).map(|(k, v)| (k, sorted(v))).collect();
            if comb != want {
               return Err(format!("{}: combined iter_all = {comb:?}, model {want:?} (step {step} of {ops:?})", T::NAME));
            }
            total.unfreeze();
            delta.unfreeze();
            if step % 2 == 1 {
               // unfreezing an index that is not frozen (writers do it defensively) leaves it as it is
               total.unfreeze();
               new.unfreeze();
            }
            if matches!(op, Op::FreezeCycle) {
               // freezing and unfreezing again preserves contents
               total.freeze();
               total.unfreeze();
               total.freeze();
               check_reads("total after freeze/unfreeze", &total, &mt, ops, step)?;
               total.unfreeze();
            }
         },
      }
   }
   Ok(out)
}

fn run_type<T: Ix>(a: &Args, rep: &mut Report, cases: u32) {
   let op = prop_oneof![
      8 => (0u8..6, 0u8..6).prop_map(|(k, v)| Op::Insert(k, v)),
      4 => (0u8..6, 0u8..6).prop_map(|(k, v)| Op::InsertShared(k, v)),
      3 => (0u8..6, 0u8..6).prop_map(|(k, v)| Op::InsertIfAbsent(k, v)),
      4 => Just(Op::Merge),
      2 => (0u8..7).prop_map(Op::Lookup),
      2 => Just(Op::IterAll),
      1 => Just(Op::FreezeCycle),
   ];
   let strat = proptest::collection::vec(op, 1..40).prop_map(|mut ops| {
      ops.push(Op::IterAll);
      ops
   });
   let mut runner = TestRunner::new(Config { cases, failure_persistence: None, rng_seed: RngSeed::Fixed(a.seed ^ T::NAME.len() as u64), ..Config::default() });
   let n = std::cell::Cell::new(0u64);
   let nt = std::cell::Cell::new(0u64);
   let samples = std::cell::RefCell::new(vec![]);
   let strat = (strat, proptest::collection::vec(0usize..4, 4..=4));
   let pools_varied = std::cell::Cell::new(0u64);
   let res = runner.run(&strat, |(ops, pools)| {
      n.set(n.get() + 1);
      // concurrent types: every second history with the versions created in pools of different sizes
      let sizes = [1usize, 2, 3, 8];
      let varied = T::CONCURRENT && pools[3] % 2 == 1;
      let r = if varied {
         pools_varied.set(pools_varied.get() + 1);
         run_history_in_pools::<T>(&ops, sizes[pools[0]], sizes[pools[1]], sizes[pools[2]], sizes[(pools[0] + pools[3]) % 4])
            .map_err(|e| format!("{e} [versions created in pools of {} (new), {} (delta), {} (total) threads]", sizes[pools[0]], sizes[pools[1]], sizes[pools[2]]))
      } else {
         run_history::<T>(&ops)
      };
      match r {
         Ok(o) => {
            if o.merges >= 2 && o.swap_path && o.no_swap_path && o.both_sides_key {
               nt.set(nt.get() + 1);
               if samples.borrow().is_empty() {
                  samples.borrow_mut().push(serde_json::json!({"type": T::NAME, "history": format!("{ops:?}")}));
               }
            }
            Ok(())
         },
         Err(e) => Err(TestCaseError::fail(e)),
      }
   });
   if let Err(e) = res {
      rep.violation(serde_json::json!({"type": T::NAME, "failure": format!("{e}")}));
   }
   rep.evaluations += n.get();
   rep.nontrivial += nt.get();
   rep.count(&format!("histories:{}", T::NAME), n.get());
   rep.count("histories_with_2+_merges_both_swap_paths_and_a_key_on_both_sides", nt.get());
   if T::CONCURRENT {
      rep.count("histories_with_versions_created_in_pools_of_different_sizes", pools_varied.get());
   }
   if rep.samples.len() < 4 {
      rep.samples.extend(samples.into_inner());
   }
}

/// concurrent inserts from many workers are all retained; exactly one racing insert-if-absent wins
fn concurrent_rounds(a: &Args, rep: &mut Report, rounds: u32) {
   use rayon::prelude::*;
   let mut s = a.seed.wrapping_mul(0x9E37_79B9_7F4A_7C15) | 1;
   let mut next = || {
      s ^= s << 13;
      s ^= s >> 7;
      s ^= s << 17;
      s
   };
   let mut n = 0u64;
   let mut same_key = 0u64;
   for round in 0..rounds {
      let threads = [2usize, 4, 8][(next() % 3) as usize];
      let pool = rayon::ThreadPoolBuilder::new().num_threads(threads).build().unwrap();
      let perturb = next() | 1;
      // overlapping batches: every worker inserts the same (key, value) pairs plus its own
      let batch: Vec<(u8, u8)> = (0..(8 + next() % 24)).map(|_| ((next() % 6) as u8, (next() % 6) as u8)).collect();
      // the indices are created under a pool that may be smaller than the one whose workers insert (a provider's index
      // created when the program value was constructed, filled by run() in a larger pool)
      let made_in = [1usize, 2, 8][(next() % 3) as usize];
      let plain_threads = (next() % 3) as usize * 2;
      let res = catch(|| {
         let (ci, cl, cn, cf) = pool_of(made_in).install(|| {
            (CRelIndex::<(u8,), (u8,)>::default(), CLatIndex::<(u8,), (u8,)>::default(), CRelNoIndex::<(u8,)>::default(), CRelFullIndex::<(u8,), u8>::default())
         });
         pool.install(|| {
            ascent::internal::verif::perturb_arm(perturb);
            let wins = std::sync::atomic::AtomicUsize::new(0);
            let race_key = (next() % 6) as u8;
            (0..threads * 3).into_par_iter().for_each(|w| {
               for (k, v) in &batch {
                  CRelIndexWrite::index_insert(&ci, (*k,), (*v,));
                  CRelIndexWrite::index_insert(&cl, (*k,), (*v,));
                  CRelIndexWrite::index_insert(&cn, (), (*v,));
               }
               CRelIndexWrite::index_insert(&ci, (100 + w as u8,), (w as u8,));
               if CRelFullIndexWrite::insert_if_not_present(&cf, &(race_key,), w as u8) {
                  wins.fetch_add(1, std::sync::atomic::Ordering::SeqCst);
               }
            });
            // threads that are not workers of any pool insert as well
            std::thread::scope(|sc| {
               for _ in 0..plain_threads {
                  sc.spawn(|| {
                     for (_, v) in &batch {
                        CRelIndexWrite::index_insert(&cn, (), (*v,));
                     }
                  });
               }
            });
            ascent::internal::verif::perturb_arm(0);
            let workers = threads * 3;
            let mut ci = ci;
            let mut cl = cl;
            let mut cn = cn;
            let mut cf = cf;
            Freezable::freeze(&mut ci);
            Freezable::freeze(&mut cl);
            Freezable::freeze(&mut cn);
            Freezable::freeze(&mut cf);
            let mut errs = vec![];
            // multiset check on the Vec-backed index
            let mut want: BTreeMap<u8, Vec<u8>> = BTreeMap::new();
            for (k, v) in &batch {
               for _ in 0..workers {
                  want.entry(*k).or_default().push(*v);
               }
            }
            for (k, vs) in &want {
               let got = RelIndexRead::index_get(&ci, &(*k,)).map(|it| sorted(it.map(|v| v.0).collect())).unwrap_or_default();
               if got != sorted(vs.clone()) {
                  errs.push(format!("CRelIndex lost or invented entries under key {k}: {} of {} present", got.len(), vs.len()));
               }
            }
            for w in 0..workers {
               if RelIndexRead::index_get(&ci, &(100 + w as u8,)).map(|it| it.count()) != Some(1) {
                  errs.push(format!("CRelIndex lost the private entry of worker {w}"));
               }
            }
            for (k, vs) in &want {
               let got: Vec<u8> = RelIndexRead::index_get(&cl, &(*k,)).map(|it| sorted(it.map(|v| v.0).collect())).unwrap_or_default();
               let mut w = vs.clone();
               w.sort();
               w.dedup();
               if got != w {
                  errs.push(format!("CLatIndex under key {k}: {got:?}, expected set {w:?}"));
               }
            }
            let got_n = RelIndexRead::index_get(&cn, &()).map(|it| it.count()).unwrap_or(0);
            if got_n != batch.len() * (workers + plain_threads) {
               errs.push(format!(
                  "CRelNoIndex (created under {made_in} threads, filled by {threads} workers and {plain_threads} plain threads) holds {got_n} entries, {} were inserted",
                  batch.len() * (workers + plain_threads)
               ));
            }
            let w = wins.load(std::sync::atomic::Ordering::SeqCst);
            if w != 1 {
               errs.push(format!("{w} of {workers} racing insert_if_not_present calls on one key returned true"));
            }
            if RelIndexRead::index_get(&cf, &(race_key,)).map(|it| it.count()) != Some(1) {
               errs.push("CRelFullIndex lost the raced key".to_string());
            }
            errs
         })
      });
      n += 1;
      same_key += 1;
      match res {
         Ok(errs) =>
            for e in errs {
               rep.violation(serde_json::json!({"concurrent_round": round, "threads": threads, "perturb_seed": perturb, "failure": e}));
            },
         Err(p) => rep.violation(serde_json::json!({"concurrent_round": round, "threads": threads, "panic": p})),
      }
   }
   rep.evaluations += n;
   rep.nontrivial += same_key;
   rep.count("concurrent_rounds(workers insert overlapping batches; one raced key)", n);
}

/// Lookups in an unfrozen concurrent full index while other threads insert other keys (what the parallel lattice head
/// update does with the key index of `new`): a key that was inserted before the lookup started is always found with
/// its value, a key nobody inserts is never found, and a thread finds what it has just inserted itself.
fn read_while_write_rounds(a: &Args, rep: &mut Report, rounds: u32) {
   use std::sync::atomic::{AtomicBool, AtomicU64, Ordering};
   let mut lookups_total = 0u64;
   for round in 0..rounds {
      let made_in = [1usize, 2, 8][(round as usize + a.seed as usize) % 3];
      let writers = [2usize, 4, 6][(round as usize / 3 + a.seed as usize) % 3];
      let readers = 2 + (round as usize % 3);
      let present: u32 = 48 + (a.seed as u32 % 16);
      let per_writer: u32 = 3000;
      let res = catch(|| {
         let cf = pool_of(made_in).install(CRelFullIndex::<(u32,), u32>::default);
         for k in 0..present {
            CRelFullIndexWrite::insert_if_not_present(&cf, &(k,), k + 1000);
         }
         let done = AtomicBool::new(false);
         let lookups = AtomicU64::new(0);
         let errs = std::sync::Mutex::new(Vec::<String>::new());
         std::thread::scope(|sc| {
            let mut hs = vec![];
            for w in 0..writers as u32 {
               let (cf, errs) = (&cf, &errs);
               hs.push(sc.spawn(move || {
                  for i in 0..per_writer {
                     let k = 100_000 + w * per_writer + i;
                     CRelFullIndexWrite::insert_if_not_present(cf, &(k,), k ^ 7);
                     if i % 16 == 0 && cf.get_cloned(&(k,)) != Some(k ^ 7) {
                        errs.lock().unwrap().push(format!("a thread does not find key {k} that it has just inserted itself"));
                        return;
                     }
                  }
               }));
            }
            for rd in 0..readers as u32 {
               let (cf, errs, done, lookups) = (&cf, &errs, &done, &lookups);
               sc.spawn(move || {
                  let mut n = 0u64;
                  let mut pass = 0u32;
                  while !done.load(Ordering::Acquire) || pass < 2 {
                     pass += 1;
                     for k in 0..present {
                        n += 1;
                        let got = cf.get_cloned(&(k,));
                        if got != Some(k + 1000) {
                           errs.lock().unwrap().push(format!(
                              "get_cloned of key {k}, inserted before the lookups started, returned {got:?} while other keys were being inserted (expected Some({}))",
                              k + 1000
                           ));
                           lookups.fetch_add(n, Ordering::Relaxed);
                           return;
                        }
                     }
                     let absent = 50_000_000 + rd * 1000 + (pass % 1000);
                     if let Some(v) = cf.get_cloned(&(absent,)) {
                        errs.lock().unwrap().push(format!("get_cloned of key {absent}, which nobody inserts, returned Some({v})"));
                        return;
                     }
                  }
                  lookups.fetch_add(n, Ordering::Relaxed);
               });
            }
            for h in hs {
               let _ = h.join();
            }
            done.store(true, Ordering::Release);
         });
         // afterwards everything is there, once
         let mut cf = cf;
         Freezable::freeze(&mut cf);
         let mut errs = errs.into_inner().unwrap();
         let n_all = RelIndexReadAll::iter_all(&cf).count();
         let want = present as usize + writers * per_writer as usize;
         if n_all != want {
            errs.push(format!("after {writers} writers: {n_all} keys in the index, {want} were inserted"));
         }
         (errs, lookups.load(Ordering::Relaxed))
      });
      rep.evaluations += 1;
      rep.nontrivial += 1;
      match res {
         Ok((errs, n)) => {
            lookups_total += n;
            if let Some(e) = errs.into_iter().next() {
               rep.violation(serde_json::json!({"read_while_write_round": round, "created_under_threads": made_in, "writers": writers, "readers": readers, "failure": e}));
               break;
            }
         },
         Err(p) => {
            rep.violation(serde_json::json!({"read_while_write_round": round, "panic": p}));
            break;
         },
      }
   }
   rep.count("read_while_write_rounds(CRelFullIndex::get_cloned during concurrent inserts of other keys)", rounds as u64);
   rep.count("read_while_write_lookups", lookups_total);
}

/// Parallel iteration over a frozen index returns every entry once, whatever the size of the pool that iterates (also
/// sizes that do not divide the number of shards) and whatever pool the index was created in.
fn par_iteration_rounds(a: &Args, rep: &mut Report, rounds: u32) {
   use rayon::prelude::*;
   let mut s = a.seed.wrapping_mul(0x9E37_79B9_7F4A_7C15) ^ 0xC19;
   let mut next = || {
      s ^= s << 13;
      s ^= s >> 7;
      s ^= s << 17;
      s
   };
   for round in 0..rounds {
      let made_in = [1usize, 2, 3, 8, 16][(next() % 5) as usize];
      let n_keys = 200 + (next() % 1800) as u32;
      let keys: Vec<u32> = (0..n_keys).map(|_| (next() % 100_000) as u32).collect();
      let res = catch(|| {
         let (mut ci, mut cl, mut cf) = pool_of(made_in).install(|| (CRelIndex::<(u32,), (u32,)>::default(), CLatIndex::<(u32,), (u32,)>::default(), CRelFullIndex::<(u32,), u32>::default()));
         for k in &keys {
            CRelIndexWrite::index_insert(&ci, (*k,), (k % 7,));
            CRelIndexWrite::index_insert(&cl, (*k,), (k % 7,));
            CRelFullIndexWrite::insert_if_not_present(&cf, &(*k,), k % 7);
         }
         Freezable::freeze(&mut ci);
         Freezable::freeze(&mut cl);
         Freezable::freeze(&mut cf);
         let mut want_i: Vec<(u32, u32)> = RelIndexReadAll::iter_all(&ci).flat_map(|(k, vs)| vs.map(move |v| (k.0, v.0))).collect();
         want_i.sort();
         let mut want_l: Vec<(u32, u32)> = RelIndexReadAll::iter_all(&cl).flat_map(|(k, vs)| vs.map(move |v| (k.0, v.0))).collect();
         want_l.sort();
         let mut want_f: Vec<(u32, u32)> = RelIndexReadAll::iter_all(&cf).flat_map(|(k, vs)| vs.map(move |v| (k.0, v))).collect();
         want_f.sort();
         let mut errs = vec![];
         if want_i.len() != keys.len() {
            errs.push(format!("CRelIndex: serial iter_all yields {} entries, {} were inserted", want_i.len(), keys.len()));
         }
         for threads in [1usize, 2, 3, 5, 6, 7, 8] {
            let (gi, gl, gf) = pool_of(threads).install(|| {
               let mut gi: Vec<(u32, u32)> = CRelIndexReadAll::c_iter_all(&ci).flat_map(|(k, vs)| vs.map(move |v| (k.0, v.0))).collect();
               gi.sort();
               let mut gl: Vec<(u32, u32)> = CRelIndexReadAll::c_iter_all(&cl).flat_map(|(k, vs)| vs.map(move |v| (k.0, v.0))).collect();
               gl.sort();
               let mut gf: Vec<(u32, u32)> = CRelIndexReadAll::c_iter_all(&cf).flat_map(|(k, vs)| vs.map(move |v| (k.0, *v))).collect();
               gf.sort();
               (gi, gl, gf)
            });
            for (name, got, want) in [("CRelIndex", &gi, &want_i), ("CLatIndex", &gl, &want_l), ("CRelFullIndex", &gf, &want_f)] {
               if got != want {
                  errs.push(format!(
                     "{name} (created under {made_in} threads, {} entries): c_iter_all in a pool of {threads} threads yields {} entries",
                     want.len(),
                     got.len()
                  ));
               }
            }
         }
         errs
      });
      rep.evaluations += 1;
      rep.nontrivial += 1;
      match res {
         Ok(errs) =>
            if let Some(e) = errs.into_iter().next() {
               rep.violation(serde_json::json!({"par_iteration_round": round, "failure": e}));
               break;
            },
         Err(p) => {
            rep.violation(serde_json::json!({"par_iteration_round": round, "panic": p}));
            break;
         },
      }
   }
   rep.count("par_iteration_rounds(c_iter_all in pools of 1, 2, 3, 5, 6, 7, 8 threads against the serial iteration)", rounds as u64);
}

pub fn run(a: &Args, rep: &mut Report) {
   let cases = if a.tier == "quick" { 3000 } else { 60000 };
   run_type::<RelIndexType1<(u8,), (u8,)>>(a, rep, cases);
   run_type::<LatticeIndexType<(u8,), (u8,)>>(a, rep, cases);
   run_type::<RelFullIndexType<(u8,), u8>>(a, rep, cases);
   run_type::<RelNoIndexType>(a, rep, cases);
   run_type::<CRelIndex<(u8,), (u8,)>>(a, rep, cases);
   run_type::<CLatIndex<(u8,), (u8,)>>(a, rep, cases);
   run_type::<CRelFullIndex<(u8,), u8>>(a, rep, cases);
   run_type::<CRelNoIndex<(u8,)>>(a, rep, cases);
   concurrent_rounds(a, rep, if a.tier == "quick" { 400 } else { 6000 });
   read_while_write_rounds(a, rep, if a.tier == "quick" { 12 } else { 120 });
   par_iteration_rounds(a, rep, if a.tier == "quick" { 12 } else { 150 });
   rep.notes.push("RelIndexCombined is exercised over (total, delta) of every type; for the concurrent types every second history creates the three versions in pools of different sizes and makes each insert on a chosen worker; the concurrent rounds create the indices under 1, 2 or 8 threads and fill them from 2-8 workers plus plain threads".into());
}

/// the eight index types by number (fuzz targets and replays)
pub fn history_by_type(t: u8, ops: &[Op]) -> Result<Outcome, String> {
   match t % 8 {
      0 => run_history::<RelIndexType1<(u8,), (u8,)>>(ops),
      1 => run_history::<LatticeIndexType<(u8,), (u8,)>>(ops),
      2 => run_history::<RelFullIndexType<(u8,), u8>>(ops),
      3 => run_history::<RelNoIndexType>(ops),
      4 => run_history::<CRelIndex<(u8,), (u8,)>>(ops),
      5 => run_history::<CLatIndex<(u8,), (u8,)>>(ops),
      6 => run_history::<CRelFullIndex<(u8,), u8>>(ops),
      _ => run_history::<CRelNoIndex<(u8,)>>(ops),
   }
}
