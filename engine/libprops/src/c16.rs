//! C16: lattice laws and truthful change reporting, exhaustively over small carriers and randomly beyond.

use std::cmp::Reverse;
use std::fmt::Debug;
use std::rc::Rc;
use std::sync::Arc;

use ascent::lattice::bounded_set::BoundedSet;
use ascent::lattice::constant_propagation::ConstPropagation;
use ascent::lattice::ord_lattice::OrdLattice;
use ascent::lattice::set::Set;
use ascent::lattice::{BoundedLattice, Product};
use ascent::{Dual, Lattice};
use proptest::prelude::*;
use proptest::test_runner::{Config, RngSeed, TestRunner};

use crate::{catch, Args, Report};

fn le<T: PartialOrd>(a: &T, b: &T) -> bool { matches!(a.partial_cmp(b), Some(std::cmp::Ordering::Less | std::cmp::Ordering::Equal)) }

/// all laws on one triple; returns a description of the first law that fails
fn laws<T: Lattice + Clone + PartialEq + Debug>(a: &T, b: &T, c: &T) -> Result<(), String> {
   let j = |x: &T, y: &T| x.clone().join(y.clone());
   let m = |x: &T, y: &T| x.clone().meet(y.clone());
   macro_rules! law {
      ($cond:expr, $($fmt:tt)*) => { if !($cond) { return Err(format!($($fmt)*)); } };
   }
   law!(j(a, b) == j(b, a), "join not commutative: {a:?} {b:?}");
   law!(m(a, b) == m(b, a), "meet not commutative: {a:?} {b:?}");
   law!(j(&j(a, b), c) == j(a, &j(b, c)), "join not associative: {a:?} {b:?} {c:?}");
   law!(m(&m(a, b), c) == m(a, &m(b, c)), "meet not associative: {a:?} {b:?} {c:?}");
   law!(&j(a, a) == a, "join not idempotent: {a:?}");
   law!(&m(a, a) == a, "meet not idempotent: {a:?}");
   law!(&j(a, &m(a, b)) == a, "absorption join(a, meet(a,b)) != a: {a:?} {b:?}");
   law!(&m(a, &j(a, b)) == a, "absorption meet(a, join(a,b)) != a: {a:?} {b:?}");
   // order agreement
   let ab_le = le(a, b);
   law!(ab_le == (&j(a, b) == b), "a <= b ({ab_le}) disagrees with join(a,b) == b: {a:?} {b:?} join={:?}", j(a, b));
   law!(ab_le == (&m(a, b) == a), "a <= b ({ab_le}) disagrees with meet(a,b) == a: {a:?} {b:?} meet={:?}", m(a, b));
   // the comparison itself is the order the operations define: Equal exactly for equal values, Less / Greater exactly
   // for strictly smaller / larger ones, None for incomparable ones (and hence <, >, >= agree as well)
   {
      use std::cmp::Ordering::*;
      let want = if a == b {
         Some(Equal)
      } else if &j(a, b) == b {
         Some(Less)
      } else if &j(a, b) == a {
         Some(Greater)
      } else {
         None
      };
      let got = a.partial_cmp(b);
      law!(got == want, "partial_cmp({a:?}, {b:?}) = {got:?}, the order defined by join gives {want:?}");
   }
   // in-place variants
   let mut x = a.clone();
   let ch = x.join_mut(b.clone());
   law!(x == j(a, b), "join_mut leaves {x:?}, join gives {:?}: {a:?} {b:?}", j(a, b));
   law!(ch == (&x != a), "join_mut returned {ch} but receiver {a:?} -> {x:?} (arg {b:?})");
   let mut y = a.clone();
   let ch = y.meet_mut(b.clone());
   law!(y == m(a, b), "meet_mut leaves {y:?}, meet gives {:?}: {a:?} {b:?}", m(a, b));
   law!(ch == (&y != a), "meet_mut returned {ch} but receiver {a:?} -> {y:?} (arg {b:?})");
   Ok(())
}

fn carrier<T: Lattice + Clone + PartialEq + Debug>(name: &str, vals: &[T], rep: &mut Report) {
   let mut n = 0u64;
   let mut nontrivial = 0u64;
   let mut incomparable = 0u64;
   for a in vals {
      for b in vals {
         if a != b {
            nontrivial += 1;
            if a.partial_cmp(b).is_none() {
               incomparable += 1;
            }
         }
         for c in vals {
            n += 1;
            match catch(|| laws(a, b, c)) {
               Ok(Ok(())) => {},
               Ok(Err(e)) => rep.violation(serde_json::json!({"carrier": name, "law": e})),
               Err(p) => rep.violation(serde_json::json!({"carrier": name, "panic": p, "values": format!("{a:?} {b:?} {c:?}")})),
            }
         }
      }
   }
   rep.evaluations += n;
   rep.nontrivial += nontrivial;
   rep.count(&format!("carrier:{name}:values"), vals.len() as u64);
   rep.count("pairs_a_ne_b", nontrivial);
   rep.count("incomparable_pairs", incomparable);
   if rep.samples.len() < 4 && vals.len() >= 2 {
      rep.samples.push(serde_json::json!({"carrier": name, "values": vals.iter().take(6).map(|v| format!("{v:?}")).collect::<Vec<_>>()}));
   }
}

fn bounded<T: BoundedLattice + Clone + PartialEq + Debug>(name: &str, vals: &[T], rep: &mut Report) {
   let (top, bot) = (T::top(), T::bottom());
   for v in vals {
      rep.evaluations += 1;
      if !(le(v, &top) && le(&bot, v)) {
         rep.violation(serde_json::json!({"carrier": name, "law": format!("top/bottom not extremal for {v:?} (top {top:?}, bottom {bot:?})")}));
      }
   }
}

fn dual_swaps<T: Lattice + Clone + PartialEq + Debug>(name: &str, vals: &[T], rep: &mut Report) {
   for a in vals {
      for b in vals {
         rep.evaluations += 1;
         let dj = Dual(a.clone()).join(Dual(b.clone())).0;
         let dm = Dual(a.clone()).meet(Dual(b.clone())).0;
         let rj = Reverse(a.clone()).join(Reverse(b.clone())).0;
         let rm = Reverse(a.clone()).meet(Reverse(b.clone())).0;
         if dj != a.clone().meet(b.clone()) || dm != a.clone().join(b.clone()) {
            rep.violation(serde_json::json!({"carrier": name, "law": format!("Dual does not swap join/meet on {a:?} {b:?}")}));
         }
         if rj != a.clone().meet(b.clone()) || rm != a.clone().join(b.clone()) {
            rep.violation(serde_json::json!({"carrier": name, "law": format!("Reverse does not swap join/meet on {a:?} {b:?}")}));
         }
      }
   }
}

fn sets(universe: &[u8]) -> Vec<Set<u8>> {
   (0..(1u32 << universe.len()))
      .map(|m| Set(universe.iter().enumerate().filter(|(i, _)| m & (1 << i) != 0).map(|(_, x)| *x).collect()))
      .collect()
}

pub fn run(a: &Args, rep: &mut Report) {
   rep.exhaustive = true;
   let bools = vec![false, true];
   let u8s: Vec<u8> = vec![u8::MIN, 1, 2, 3, 100, u8::MAX - 1, u8::MAX];
   let i8s: Vec<i8> = vec![i8::MIN, i8::MIN + 1, -1, 0, 1, i8::MAX - 1, i8::MAX];
   let small: Vec<u8> = vec![0, 1, 2];
   carrier("bool", &bools, rep);
   carrier("u8", &u8s, rep);
   carrier("i8", &i8s, rep);
   carrier("usize", &[0usize, 1, 7, usize::MAX], rep);
   carrier("i64", &[i64::MIN, -5, 0, 5, i64::MAX], rep);
   bounded("bool", &bools, rep);
   bounded("u8", &u8s, rep);
   bounded("i8", &i8s, rep);
   dual_swaps("u8", &u8s, rep);
   dual_swaps("bool", &bools, rep);

   let opt: Vec<Option<u8>> = std::iter::once(None).chain(small.iter().map(|x| Some(*x))).collect();
   carrier("Option<u8>", &opt, rep);
   bounded("Option<u8>", &opt, rep);
   let optopt: Vec<Option<Option<bool>>> = vec![None, Some(None), Some(Some(false)), Some(Some(true))];
   carrier("Option<Option<bool>>", &optopt, rep);
   carrier("Rc<u8>", &small.iter().map(|x| Rc::new(*x)).collect::<Vec<_>>(), rep);
   carrier("Arc<u8>", &small.iter().map(|x| Arc::new(*x)).collect::<Vec<_>>(), rep);
   carrier("Box<u8>", &small.iter().map(|x| Box::new(*x)).collect::<Vec<_>>(), rep);
   carrier("Reverse<u8>", &u8s.iter().map(|x| Reverse(*x)).collect::<Vec<_>>(), rep);
   bounded("Reverse<u8>", &u8s.iter().map(|x| Reverse(*x)).collect::<Vec<_>>(), rep);
   carrier("Dual<u8>", &u8s.iter().map(|x| Dual(*x)).collect::<Vec<_>>(), rep);
   bounded("Dual<u8>", &u8s.iter().map(|x| Dual(*x)).collect::<Vec<_>>(), rep);
   carrier("OrdLattice<u8>", &u8s.iter().map(|x| OrdLattice(*x)).collect::<Vec<_>>(), rep);
   carrier("OrdLattice<String>", &["", "a", "ab", "b"].iter().map(|s| OrdLattice(s.to_string())).collect::<Vec<_>>(), rep);

   let sets3 = sets(&[0, 1, 2]);
   carrier("Set<u8 in 0..3>", &sets3, rep);
   dual_swaps("Set<u8 in 0..3>", &sets3, rep);
   let rcsets: Vec<Rc<Set<u8>>> = sets3.iter().map(|s| Rc::new(s.clone())).collect();
   carrier("Rc<Set<u8>>", &rcsets, rep);
   let arcsets: Vec<Arc<Set<u8>>> = sets3.iter().map(|s| Arc::new(s.clone())).collect();
   carrier("Arc<Set<u8>>", &arcsets, rep);

   let mut bsets: Vec<BoundedSet<2, u8>> = sets(&[0, 1, 2, 3]).into_iter().filter(|s| s.len() <= 2).map(BoundedSet::from_set).collect();
   bsets.push(BoundedSet::TOP);
   carrier("BoundedSet<2, u8 in 0..4>", &bsets, rep);
   bounded("BoundedSet<2, u8 in 0..4>", &bsets, rep);
   let mut bsets1: Vec<BoundedSet<1, u8>> = sets(&[0, 1, 2]).into_iter().filter(|s| s.len() <= 1).map(BoundedSet::from_set).collect();
   bsets1.push(BoundedSet::TOP);
   carrier("BoundedSet<1, u8 in 0..3>", &bsets1, rep);

   let cp: Vec<ConstPropagation<u8>> = vec![
      ConstPropagation::Bottom,
      ConstPropagation::Constant(0),
      ConstPropagation::Constant(1),
      ConstPropagation::Constant(2),
      ConstPropagation::Top,
   ];
   carrier("ConstPropagation<u8 in 0..3>", &cp, rep);
   bounded("ConstPropagation<u8 in 0..3>", &cp, rep);

   // tuples (lexicographic) and products (component-wise)
   let t1: Vec<(u8,)> = small.iter().map(|x| (*x,)).collect();
   carrier("(u8,)", &t1, rep);
   let t2: Vec<(u8, bool)> = small.iter().flat_map(|x| bools.iter().map(move |b| (*x, *b))).collect();
   carrier("(u8, bool)", &t2, rep);
   bounded("(u8, bool)", &t2, rep);
   let t3: Vec<(bool, u8, bool)> = bools.iter().flat_map(|a| small.iter().flat_map(move |x| [false, true].into_iter().map(move |b| (*a, *x, b)))).collect();
   carrier("(bool, u8, bool)", &t3, rep);
   let p2: Vec<Product<(u8, bool)>> = t2.iter().map(|t| Product(*t)).collect();
   carrier("Product<(u8, bool)>", &p2, rep);
   bounded("Product<(u8, bool)>", &p2, rep);
   let p3: Vec<Product<(bool, u8, bool)>> = t3.iter().map(|t| Product(*t)).collect();
   carrier("Product<(bool, u8, bool)>", &p3, rep);
   let pd: Vec<Product<(u8, Dual<u8>)>> = small.iter().flat_map(|x| small.iter().map(move |y| Product((*x, Dual(*y))))).collect();
   carrier("Product<(u8, Dual<u8>)>", &pd, rep);
   let pa: Vec<Product<[u8; 2]>> = small.iter().flat_map(|x| small.iter().map(move |y| Product([*x, *y]))).collect();
   carrier("Product<[u8; 2]>", &pa, rep);
   bounded("Product<[u8; 2]>", &pa, rep);
   let ps: Vec<Product<(Set<u8>, bool)>> = sets(&[0, 1]).into_iter().flat_map(|s| [false, true].into_iter().map(move |b| Product((s.clone(), b)))).collect();
   carrier("Product<(Set<u8 in 0..2>, bool)>", &ps, rep);

   // nested compositions
   let inner: Vec<Product<(u8, Dual<bool>)>> = [0u8, 1].iter().flat_map(|x| bools.iter().map(move |b| Product((*x, Dual(*b))))).collect();
   let nested: Vec<Dual<Option<Product<(u8, Dual<bool>)>>>> =
      std::iter::once(Dual(None)).chain(inner.iter().map(|p| Dual(Some(*p)))).collect();
   carrier("Dual<Option<Product<(u8, Dual<bool>)>>>", &nested, rep);
   let nested2: Vec<Option<Dual<ConstPropagation<u8>>>> = std::iter::once(None).chain(cp.iter().map(|c| Some(Dual(*c)))).collect();
   carrier("Option<Dual<ConstPropagation<u8>>>", &nested2, rep);
   let nested3: Vec<(Dual<u8>, Option<bool>)> =
      small.iter().flat_map(|x| [None, Some(false), Some(true)].into_iter().map(move |o| (Dual(*x), o))).collect();
   carrier("(Dual<u8>, Option<bool>)", &nested3, rep);
   let nested4: Vec<Box<Reverse<Option<u8>>>> = opt.iter().map(|o| Box::new(Reverse(*o))).collect();
   carrier("Box<Reverse<Option<u8>>>", &nested4, rep);

   // random generation beyond the exhaustive carriers
   let cases = if a.tier == "quick" { 3000 } else { 60000 };
   let mut runner = TestRunner::new(Config { cases, failure_persistence: None, rng_seed: RngSeed::Fixed(a.seed), ..Config::default() });
   let rand_n = std::cell::Cell::new(0u64);
   let mut viol: Vec<serde_json::Value> = vec![];
   {
      let strat = (any::<i32>(), any::<i32>(), any::<i32>());
      let r = runner.run(&strat, |(x, y, z)| {
         rand_n.set(rand_n.get() + 1);
         laws(&x, &y, &z).map_err(|e| TestCaseError::fail(e))
      });
      if let Err(e) = r {
         viol.push(serde_json::json!({"carrier": "i32 (random)", "law": format!("{e}")}));
      }
   }
   {
      let set = || proptest::collection::btree_set(0u8..12, 0..8).prop_map(Set);
      let strat = (set(), set(), set());
      let r = runner.run(&strat, |(x, y, z)| {
         rand_n.set(rand_n.get() + 1);
         laws(&x, &y, &z).map_err(|e| TestCaseError::fail(e))
      });
      if let Err(e) = r {
         viol.push(serde_json::json!({"carrier": "Set<u8> (random)", "law": format!("{e}")}));
      }
   }
   {
      let bs = || proptest::collection::btree_set(0u8..8, 0..7).prop_map(|s| BoundedSet::<4, u8>::from_set(Set(s)));
      let strat = (bs(), bs(), bs());
      let r = runner.run(&strat, |(x, y, z)| {
         rand_n.set(rand_n.get() + 1);
         laws(&x, &y, &z).map_err(|e| TestCaseError::fail(e))
      });
      if let Err(e) = r {
         viol.push(serde_json::json!({"carrier": "BoundedSet<4,u8> (random)", "law": format!("{e}")}));
      }
   }
   {
      let el = || (any::<u16>(), proptest::option::of(any::<i8>())).prop_map(|(a, b)| Product((a, Dual(b))));
      let strat = (el(), el(), el());
      let r = runner.run(&strat, |(x, y, z)| {
         rand_n.set(rand_n.get() + 1);
         laws(&x, &y, &z).map_err(|e| TestCaseError::fail(e))
      });
      if let Err(e) = r {
         viol.push(serde_json::json!({"carrier": "Product<(u16, Dual<Option<i8>>)> (random)", "law": format!("{e}")}));
      }
   }
   rep.evaluations += rand_n.get();
   rep.count("random_triples", rand_n.get());
   for v in viol {
      rep.violation(v);
   }
   rep.notes.push("bounded carriers are enumerated completely (all triples); full-width integers, larger sets, BoundedSet<4> and a nested product are sampled".into());
}
