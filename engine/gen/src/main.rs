//! Generates batch crates of compiled-program test cases for one property.

use std::collections::BTreeMap;
use std::fmt::Write as _;
use std::path::{Path, PathBuf};

use proptest::test_runner::{RngAlgorithm, TestRng};
use rand::RngCore;
use vcore::ast::*;
use vcore::gen::{self, GenCfg};
use vcore::meta::Meta;
use vcore::print::{self, Kind, PrintOpts};
use vcore::rng::Src;

mod plans;

pub struct PtRng(pub TestRng);
impl Src for PtRng {
   fn next_u64(&mut self) -> u64 { self.0.next_u64() }
}

pub fn rng_for(prop: &str, seed: u64, index: u64) -> PtRng {
   let mut bytes = [0u8; 32];
   let mut h: u64 = 0xcbf29ce484222325;
   for b in prop.bytes() {
      h ^= b as u64;
      h = h.wrapping_mul(0x100000001b3);
   }
   bytes[..8].copy_from_slice(&h.to_le_bytes());
   bytes[8..16].copy_from_slice(&seed.to_le_bytes());
   bytes[16..24].copy_from_slice(&index.to_le_bytes());
   bytes[24..32].copy_from_slice(&(h ^ seed.rotate_left(17) ^ index.rotate_left(41)).to_le_bytes());
   PtRng(TestRng::from_seed(RngAlgorithm::ChaCha, &bytes))
}

pub struct MemberSpec {
   pub prog: Program,
   pub opts: PrintOpts,
   pub meta: Meta,
}

pub struct GroupSpec {
   pub members: Vec<MemberSpec>,
}

pub struct Opts {
   pub prop: String,
   pub tier: String,
   pub seed: u64,
   pub out: PathBuf,
   pub engine: PathBuf,
   pub batches: usize,
   pub programs: Option<usize>,
}

fn parse() -> Opts {
   let mut o = Opts {
      prop: "C01".into(),
      tier: "quick".into(),
      seed: 1,
      out: PathBuf::from("/verif/work/C01"),
      engine: PathBuf::from("/verif/engine"),
      batches: 16,
      programs: None,
   };
   let argv: Vec<String> = std::env::args().collect();
   let mut i = 1;
   while i < argv.len() {
      let v = argv.get(i + 1).cloned().unwrap_or_default();
      match argv[i].as_str() {
         "--prop" => o.prop = v,
         "--tier" => o.tier = v,
         "--seed" => o.seed = v.parse().expect("seed"),
         "--out" => o.out = PathBuf::from(v),
         "--engine" => o.engine = PathBuf::from(v),
         "--batches" => o.batches = v.parse().expect("batches"),
         "--programs" => o.programs = Some(v.parse().expect("programs")),
         other => panic!("unknown argument {other}"),
      }
      i += 2;
   }
   o
}

fn write_if_changed(path: &Path, content: &str) {
   if let Ok(old) = std::fs::read_to_string(path) {
      if old == content {
         return;
      }
   }
   std::fs::create_dir_all(path.parent().unwrap()).unwrap();
   std::fs::write(path, content).unwrap();
}

fn main() {
   let o = parse();
   for n in gen::VAR_POOL.iter().chain(gen::REL_POOL.iter()) {
      assert!(!gen::is_reserved_shape(n), "identifier pool contains reserved shape {n}");
   }
   let groups = plans::plan(&o);
   // distribute groups over batches, balancing member counts
   let nb = o.batches.max(1).min(groups.len().max(1));
   let mut batches: Vec<Vec<&GroupSpec>> = (0..nb).map(|_| vec![]).collect();
   let mut loads = vec![0usize; nb];
   for g in &groups {
      let (bi, _) = loads.iter().enumerate().min_by_key(|(_, l)| **l).unwrap();
      loads[bi] += g.members.len();
      batches[bi].push(g);
   }
   let ws = o.out.join("ws");
   std::fs::create_dir_all(&ws).unwrap();
   // remove stale batch dirs
   if let Ok(rd) = std::fs::read_dir(&ws) {
      for e in rd.flatten() {
         let name = e.file_name().to_string_lossy().to_string();
         if name.starts_with('b') && name[1..].parse::<usize>().map_or(false, |i| i >= nb) {
            let _ = std::fs::remove_dir_all(e.path());
         }
      }
   }
   let mut members = vec![];
   let mut total_programs = 0;
   let mut index = vec![];
   for (bi, groups) in batches.iter().enumerate() {
      let name = format!("b{bi}");
      members.push(format!("\"{name}\""));
      let dir = ws.join(&name);
      let mut lib = String::new();
      writeln!(lib, "#![allow(warnings)]").unwrap();
      let mut entries = String::new();
      let mut pi = 0;
      for g in groups {
         for m in &g.members {
            let mod_name = format!("p{pi}");
            pi += 1;
            total_programs += 1;
            let ast = serde_json::to_string(&m.prog).unwrap();
            let meta = serde_json::to_string(&m.meta).unwrap();
            lib.push_str(&print::print_module(&mod_name, &m.prog, &m.opts, &ast, &meta));
            let text = print::program_text(&m.prog, &m.opts);
            writeln!(
               entries,
               "      ::vglue::Entry {{ name: \"{bname}/{mod_name}\", ast: {mod_name}::AST, meta: {mod_name}::META, text: r########\"{text}\"########, new: {mod_name}::new, summary: {mod_name}::summary }},",
               bname = name
            )
            .unwrap();
            index.push(serde_json::json!({"batch": name, "module": mod_name, "base": m.meta.base, "variant": m.meta.variant}));
         }
      }
      writeln!(lib, "pub fn entries() -> Vec<::vglue::Entry> {{\n   vec![\n{entries}   ]\n}}").unwrap();
      write_if_changed(&dir.join("src/lib.rs"), &lib);
      let cargo = format!(
         "[package]\nname = \"{name}\"\nversion = \"0.1.0\"\nedition = \"2021\"\n\n[dependencies]\nvglue = {{ path = \"{eng}/glue\" }}\nascent = {{ path = \"@REPO@/ascent\" }}\nascent-byods-rels = {{ path = \"@REPO@/byods/ascent-byods-rels\" }}\n",
         eng = o.engine.display()
      );
      write_if_changed(&dir.join("Cargo.toml.in"), &cargo);
   }
   // one binary linking every batch library
   {
      let dir = ws.join("runall");
      let mut deps = String::new();
      let mut ext = String::new();
      for bi in 0..nb {
         writeln!(deps, "b{bi} = {{ path = \"../b{bi}\" }}").unwrap();
         writeln!(ext, "   e.extend(b{bi}::entries());").unwrap();
      }
      let cargo = format!(
         "[package]\nname = \"runall\"\nversion = \"0.1.0\"\nedition = \"2021\"\n\n[dependencies]\nvrunner = {{ path = \"{eng}/runner\" }}\n{deps}",
         eng = o.engine.display()
      );
      write_if_changed(&dir.join("Cargo.toml"), &cargo);
      write_if_changed(&dir.join("src/main.rs"), &format!("fn main() {{\n   let mut e = vec![];\n{ext}   vrunner::driver::run_main(e);\n}}\n"));
      members.push("\"runall\"".to_string());
   }
   let ws_toml = format!(
      "[workspace]\nmembers = [{}]\nresolver = \"2\"\n\n[profile.dev]\ndebug = 0\nopt-level = 0\nincremental = false\n\n[profile.dev.package.vcore]\nopt-level = 2\n\n[profile.dev.package.vrunner]\nopt-level = 1\n",
      members.join(", ")
   );
   write_if_changed(&ws.join("Cargo.toml"), &ws_toml);
   write_if_changed(&ws.join(".cargo/config.toml"), "[net]\noffline = true\n");
   let plan = serde_json::json!({
      "prop": o.prop, "tier": o.tier, "seed": o.seed, "batches": nb, "programs": total_programs,
      "groups": groups.len(), "index": index,
   });
   write_if_changed(&o.out.join("plan.json"), &serde_json::to_string_pretty(&plan).unwrap());
   println!("generated {} programs in {} groups, {} batches under {}", total_programs, groups.len(), nb, ws.display());
}

pub fn meta(base: &str, variant: &str, kind: Kind, is_ref: bool) -> Meta {
   Meta {
      base: base.to_string(),
      variant: variant.to_string(),
      kind,
      attrs: vec![],
      is_ref,
      check_ast: false,
      rel_map: BTreeMap::new(),
      labels: vec![],
   }
}

pub fn core_cfg() -> GenCfg { GenCfg::core() }
