//! Generates batch crates of compiled-program test cases for one property.

use std::collections::BTreeMap;
use std::fmt::Write as _;
use std::path::{Path, PathBuf};

use proptest::test_runner::{RngAlgorithm, TestRng};
use rand::RngCore;
use vcore::ast::*;
use vcore::gen::{self, GenCfg};
use vcore::meta::Meta;
use vcore::print::{self, Kind, PrintOpts};
use vcore::rng::Src;

mod plans;
mod findings;
mod illformed;

pub struct PtRng(pub TestRng);
impl Src for PtRng {
   fn next_u64(&mut self) -> u64 { self.0.next_u64() }
}

pub fn rng_for(prop: &str, seed: u64, index: u64) -> PtRng {
   let mut bytes = [0u8; 32];
   let mut h: u64 = 0xcbf29ce484222325;
   for b in prop.bytes() {
      h ^= b as u64;
      h = h.wrapping_mul(0x100000001b3);
   }
   bytes[..8].copy_from_slice(&h.to_le_bytes());
   bytes[8..16].copy_from_slice(&seed.to_le_bytes());
   bytes[16..24].copy_from_slice(&index.to_le_bytes());
   bytes[24..32].copy_from_slice(&(h ^ seed.rotate_left(17) ^ index.rotate_left(41)).to_le_bytes());
   PtRng(TestRng::from_seed(RngAlgorithm::ChaCha, &bytes))
}

static EXCLUDED: std::sync::Mutex<BTreeMap<String, u64>> = std::sync::Mutex::new(BTreeMap::new());

/// counts a generated program that was dropped because it has the trigger shape of an open known finding
pub fn count_excluded(id: &str) { *EXCLUDED.lock().unwrap().entry(id.to_string()).or_insert(0) += 1; }

pub struct MemberSpec {
   pub prog: Program,
   pub opts: PrintOpts,
   pub meta: Meta,
}

pub struct GroupSpec {
   pub members: Vec<MemberSpec>,
}

pub struct Opts {
   pub prop: String,
   pub tier: String,
   pub seed: u64,
   pub out: PathBuf,
   pub engine: PathBuf,
   pub batches: usize,
   pub programs: Option<usize>,
   pub from_replay: Option<PathBuf>,
   pub findings: Option<PathBuf>,
}

fn parse() -> Opts {
   let mut o = Opts {
      prop: "C01".into(),
      tier: "quick".into(),
      seed: 1,
      out: PathBuf::from("/verif/work/C01"),
      engine: PathBuf::from("/verif/engine"),
      batches: 16,
      programs: None,
      from_replay: None,
      findings: None,
   };
   let argv: Vec<String> = std::env::args().collect();
   let mut i = 1;
   while i < argv.len() {
      let v = argv.get(i + 1).cloned().unwrap_or_default();
      match argv[i].as_str() {
         "--prop" => o.prop = v,
         "--tier" => o.tier = v,
         "--seed" => o.seed = v.parse().expect("seed"),
         "--out" => o.out = PathBuf::from(v),
         "--engine" => o.engine = PathBuf::from(v),
         "--batches" => o.batches = v.parse().expect("batches"),
         "--programs" => o.programs = Some(v.parse().expect("programs")),
         "--from-replay" => o.from_replay = Some(PathBuf::from(v)),
         "--findings" => o.findings = Some(PathBuf::from(v)),
         other => panic!("unknown argument {other}"),
      }
      i += 2;
   }
   o
}

fn write_if_changed(path: &Path, content: &str) {
   if let Ok(old) = std::fs::read_to_string(path) {
      if old == content {
         return;
      }
   }
   std::fs::create_dir_all(path.parent().unwrap()).unwrap();
   std::fs::write(path, content).unwrap();
}

fn main() {
   let argv: Vec<String> = std::env::args().collect();
   if argv.len() == 3 && argv[1] == "--emit-findings" {
      findings::emit(Path::new(&argv[2]));
      return;
   }
   let o = parse();
   for n in gen::VAR_POOL.iter().chain(gen::REL_POOL.iter()) {
      assert!(!gen::is_reserved_shape(n), "identifier pool contains reserved shape {n}");
   }
   if o.prop == "C15" {
      illformed::emit(&o);
      return;
   }
   let mut groups = match &o.from_replay {
      Some(p) => vec![group_from_replay(p, None)],
      None => {
         let mut gs = plans::plan(&o);
         // KF-3 in its join form is excluded by construction in every generated program (semantics-preserving rewrite)
         let cfg = GenCfg::core();
         for g in gs.iter_mut() {
            for m in g.members.iter_mut() {
               let n = gen::repair_kf3_joins(&mut m.prog, &cfg);
               for _ in 0..n {
                  count_excluded("KF-3 (join on the lattice column of the first clause rewritten)");
               }
            }
         }
         gs
      },
   };
   // committed replays of open known findings of this property run as fixed cases in every run
   if let (Some(dir), None) = (&o.findings, &o.from_replay) {
      if let Ok(txt) = std::fs::read_to_string(dir.join("known_findings.jsonl")) {
         for line in txt.lines().filter(|l| !l.trim().is_empty()) {
            let v: serde_json::Value = serde_json::from_str(line).expect("known_findings.jsonl line");
            // open findings: KNOWN-FINDING while the replay still fails; fixed ones: plain regression cases
            if (v["status"] == "known" || v["status"] == "fixed") && v["property"] == o.prop.as_str() {
               if let Some(rp) = v["replay"].as_str() {
                  groups.push(group_from_replay(&dir.join(rp), Some(v["id"].as_str().unwrap_or("?").to_string())));
               }
            }
         }
      }
   }
   // distribute groups over batches, balancing member counts
   let nb = o.batches.max(1).min(groups.len().max(1));
   let mut batches: Vec<Vec<&GroupSpec>> = (0..nb).map(|_| vec![]).collect();
   let mut loads = vec![0usize; nb];
   for g in &groups {
      let (bi, _) = loads.iter().enumerate().min_by_key(|(_, l)| **l).unwrap();
      loads[bi] += g.members.len();
      batches[bi].push(g);
   }
   let ws = o.out.join("ws");
   std::fs::create_dir_all(&ws).unwrap();
   // remove stale batch dirs
   if let Ok(rd) = std::fs::read_dir(&ws) {
      for e in rd.flatten() {
         let name = e.file_name().to_string_lossy().to_string();
         if name.starts_with('b') && name[1..].parse::<usize>().map_or(false, |i| i >= nb) {
            let _ = std::fs::remove_dir_all(e.path());
         }
      }
   }
   // package names must be unique across all workspaces that share the target directory (cargo derives the
   // artifact hash of a workspace member from its path relative to the workspace root)
   let tag = format!("{}{}", if o.from_replay.is_some() { "r" } else { "" }, o.prop.to_lowercase());
   let mut members = vec![];
   let mut total_programs = 0;
   let mut index = vec![];
   for (bi, groups) in batches.iter().enumerate() {
      let name = format!("b{bi}");
      members.push(format!("\"{name}\""));
      let dir = ws.join(&name);
      let mut lib = String::new();
      writeln!(lib, "#![allow(warnings)]").unwrap();
      let mut entries = String::new();
      let mut pi = 0;
      for g in groups {
         for m in &g.members {
            let mod_name = format!("p{pi}");
            pi += 1;
            total_programs += 1;
            let ast = serde_json::to_string(&m.prog).unwrap();
            let meta = serde_json::to_string(&m.meta).unwrap();
            if std::env::var("VERIF_DEBUG_GEN").is_ok() {
               eprintln!("printing {} {}\n{}", m.meta.base, m.meta.variant, ast);
            }
            lib.push_str(&print::print_module(&mod_name, &m.prog, &m.opts, &ast, &meta));
            let text = print::program_text(&m.prog, &m.opts);
            writeln!(
               entries,
               "      ::vglue::Entry {{ name: \"{bname}/{mod_name}\", ast: {mod_name}::AST, meta: {mod_name}::META, opts: {mod_name}::OPTS, text: r########\"{text}\"########, new: {mod_name}::new, summary: {mod_name}::summary }},",
               bname = name
            )
            .unwrap();
            index.push(serde_json::json!({"batch": name, "module": mod_name, "base": m.meta.base, "variant": m.meta.variant}));
         }
      }
      writeln!(lib, "pub fn entries() -> Vec<::vglue::Entry> {{\n   vec![\n{entries}   ]\n}}").unwrap();
      write_if_changed(&dir.join("src/lib.rs"), &lib);
      let cargo = format!(
         "[package]\nname = \"{tag}_{name}\"\nversion = \"0.1.0\"\nedition = \"2021\"\n\n[dependencies]\nvglue = {{ path = \"{eng}/glue\" }}\nascent = {{ path = \"@REPO@/ascent\" }}\nascent-byods-rels = {{ path = \"@REPO@/byods/ascent-byods-rels\" }}\n",
         eng = o.engine.display()
      );
      write_if_changed(&dir.join("Cargo.toml.in"), &cargo);
   }
   // one binary linking every batch library
   {
      let dir = ws.join("runall");
      let runname = format!("run_{}{}", if o.from_replay.is_some() { "replay_" } else { "" }, o.prop.to_lowercase());
      let mut deps = String::new();
      let mut ext = String::new();
      for bi in 0..nb {
         writeln!(deps, "{tag}_b{bi} = {{ path = \"../b{bi}\" }}").unwrap();
         writeln!(ext, "   e.extend({tag}_b{bi}::entries());").unwrap();
      }
      let cargo = format!(
         "[package]\nname = \"{runname}\"\nversion = \"0.1.0\"\nedition = \"2021\"\n\n[dependencies]\nvrunner = {{ path = \"{eng}/runner\" }}\n{deps}",
         eng = o.engine.display(),
         runname = runname
      );
      write_if_changed(&dir.join("Cargo.toml"), &cargo);
      write_if_changed(&dir.join("src/main.rs"), &format!("fn main() {{\n   let mut e = vec![];\n{ext}   vrunner::driver::run_main(e);\n}}\n"));
      members.push("\"runall\"".to_string());
   }
   let ws_toml = format!(
      "[workspace]\nmembers = [{}]\nresolver = \"2\"\n\n[profile.dev]\ndebug = 0\nopt-level = 0\nincremental = false\n\n[profile.dev.package.vcore]\nopt-level = 2\n\n[profile.dev.package.vrunner]\nopt-level = 1\n",
      members.join(", ")
   );
   write_if_changed(&ws.join("Cargo.toml"), &ws_toml);
   write_if_changed(&ws.join(".cargo/config.toml"), "[net]\noffline = true\n");
   let plan = serde_json::json!({
      "runner": format!("run_{}{}", if o.from_replay.is_some() { "replay_" } else { "" }, o.prop.to_lowercase()),
      "excluded_by_known_findings": EXCLUDED.lock().unwrap().clone(),
      "prop": o.prop, "tier": o.tier, "seed": o.seed, "batches": nb, "programs": total_programs,
      "groups": groups.len(), "index": index,
   });
   write_if_changed(&o.out.join("plan.json"), &serde_json::to_string_pretty(&plan).unwrap());
   println!("generated {} programs in {} groups, {} batches under {}", total_programs, groups.len(), nb, ws.display());
}

pub fn meta(base: &str, variant: &str, kind: Kind, is_ref: bool) -> Meta {
   Meta {
      base: base.to_string(),
      variant: variant.to_string(),
      kind,
      attrs: vec![],
      is_ref,
      check_ast: false,
      rel_map: BTreeMap::new(),
      labels: vec![],
      finding_id: None,
      fixed_input: None,
      fixed_ops: None,
      permute_input: false,
      val_map: None,
   }
}

pub fn core_cfg() -> GenCfg { GenCfg::core() }

#[derive(serde::Deserialize)]
struct ReplayMember {
   ast: Program,
   opts: PrintOpts,
   meta: Meta,
}

#[derive(serde::Deserialize)]
struct ReplayFile {
   base: String,
   members: Vec<ReplayMember>,
   input: vcore::val::Db,
   #[serde(default)]
   ops: Option<String>,
}

fn group_from_replay(path: &Path, finding_id: Option<String>) -> GroupSpec {
   let txt = std::fs::read_to_string(path).unwrap_or_else(|e| panic!("cannot read {}: {e}", path.display()));
   let rf: ReplayFile = serde_json::from_str(&txt).unwrap_or_else(|e| panic!("bad replay file {}: {e}", path.display()));
   let members = rf
      .members
      .into_iter()
      .map(|m| {
         let mut meta = m.meta;
         if let Some(id) = &finding_id {
            meta.base = format!("{}-{}", id, rf.base);
            meta.finding_id = Some(id.clone());
            meta.fixed_input = Some(rf.input.clone());
            meta.fixed_ops = rf.ops.clone();
         }
         MemberSpec { prog: m.ast, opts: m.opts, meta }
      })
      .collect();
   GroupSpec { members }
}
