//! C15: the cases file for the in-process front end and the crates for the rustc tier.

use std::fmt::Write as _;

pub use vcore::illformed::{IllCase, OPERATORS};

use vcore::rng::Src as _;

use crate::{rng_for, Opts};

pub fn generate(o: &Opts, n: usize) -> (Vec<IllCase>, Vec<(String, String, String)>) {
   let mut cases = vec![];
   let mut wellformed = vec![];
   let mut i = 0u64;
   while cases.len() < n {
      let mut r = rng_for("C15", o.seed, i);
      i += 1;
      if let Some((c, wf)) = vcore::illformed::one_case(&mut r, &format!("ill{}", i - 1)) {
         cases.push(c);
         wellformed.push(wf);
      }
   }
   (cases, wellformed)
}

fn wrap_module(name: &str, kind: &str, text: &str) -> String {
   let mut s = String::new();
   writeln!(s, "pub mod {name} {{").unwrap();
   writeln!(s, "   #![allow(warnings)]").unwrap();
   let body: String = text.lines().map(|l| format!("      {l}\n")).collect();
   // the struct signature goes after inner attributes
   match kind {
      "ascent" | "ascent_par" => {
         writeln!(s, "   ::ascent::{kind}! {{").unwrap();
         write!(s, "{body}").unwrap();
         writeln!(s, "   }}").unwrap();
      },
      "ascent_run" | "ascent_run_par" => {
         writeln!(s, "   pub fn f() {{").unwrap();
         writeln!(s, "      let _res = ::ascent::{kind}! {{").unwrap();
         write!(s, "{body}").unwrap();
         writeln!(s, "      }};").unwrap();
         writeln!(s, "   }}").unwrap();
      },
      "ascent_source" => {
         writeln!(s, "   ::ascent::ascent_source! {{").unwrap();
         write!(s, "{body}").unwrap();
         writeln!(s, "   }}").unwrap();
      },
      other => panic!("kind {other}"),
   }
   writeln!(s, "}}").unwrap();
   s
}

/// Writes a crate whose modules are the given programs; returns (module, first line, last line) ranges.
pub fn write_crate(dir: &std::path::Path, pkg: &str, engine: &std::path::Path, mods: &[(String, String, String)]) -> Vec<(String, usize, usize)> {
   let mut lib = String::from("#![allow(warnings)]\n");
   let mut ranges = vec![];
   for (name, kind, text) in mods {
      let start = lib.lines().count() + 1;
      lib.push_str(&wrap_module(name, kind, text));
      let end = lib.lines().count();
      ranges.push((name.clone(), start, end));
   }
   std::fs::create_dir_all(dir.join("src")).unwrap();
   std::fs::write(dir.join("src/lib.rs"), lib).unwrap();
   let cargo = format!(
      "[package]\nname = \"{pkg}\"\nversion = \"0.1.0\"\nedition = \"2021\"\n\n[workspace]\n\n[dependencies]\nvglue = {{ path = \"{eng}/glue\" }}\nascent = {{ path = \"@REPO@/ascent\" }}\nascent-byods-rels = {{ path = \"@REPO@/byods/ascent-byods-rels\" }}\n\n[profile.dev]\ndebug = 0\n",
      eng = engine.display()
   );
   std::fs::write(dir.join("Cargo.toml.in"), cargo).unwrap();
   ranges
}

/// programs of the open findings about well-formed programs that do not compile (converse direction of C15)
pub fn known_rejected_wellformed() -> Vec<(String, String, String)> {
   vec![
      (
         "kf2".into(),
         "ascent".into(),
         "relation r(String, String);\nrelation o(String);\no(x.clone()) <-- r(x, x);".into(),
      ),
      (
         "kf4".into(),
         "ascent_par".into(),
         "lattice lat(i32, u32);\nrelation src(i32, u32);\nrelation o(i32);\nlat(x, w) <-- src(x, w);\no(m) <-- agg m = ::ascent::aggregators::min(p) in lat(p, _);".into(),
      ),
      (
         "kf9".into(),
         "ascent_par".into(),
         "#[ds(::ascent_byods_rels::eqrel)] relation rr(u32, u32);\nrelation e(u32, u32);\nrelation o(u32, u32);\nrr(x, y) <-- e(x, y);\no(x, y) <-- e(x, y), rr(x, y);".into(),
      ),
      (
         "kf20".into(),
         "ascent".into(),
         "relation r(Option<i32>, Option<i32>);\nrelation o(i32);\no(1) <-- r(?None, ?None);".into(),
      ),
      // controls: must compile
      (
         "ctl_serial".into(),
         "ascent".into(),
         "relation r(i32, i32);\nrelation o(i32);\no(x) <-- r(x, x);".into(),
      ),
      (
         "ctl_par".into(),
         "ascent_par".into(),
         "#[ds(::ascent_byods_rels::eqrel)] relation rr(u32, u32);\nrelation e(u32, u32);\nrelation o(u32, u32);\nrr(x, y) <-- e(x, y);\no(x, y) <-- e(x, _), rr(x, y);".into(),
      ),
   ]
}

pub fn emit(o: &Opts) {
   let n = o.programs.unwrap_or(if o.tier == "quick" { 4000 } else { 60000 });
   let (cases, wellformed) = generate(o, n);
   std::fs::create_dir_all(&o.out).unwrap();
   // in-process cases: every ill-formed program and every well-formed base
   let mut all = vec![];
   for c in &cases {
      all.push(serde_json::json!({"id": c.id, "kind": c.kind, "text": c.text, "operator": c.operator, "site": c.site, "expect": c.expect_inproc}));
   }
   let n_wf = wellformed.len().min(if o.tier == "quick" { 600 } else { 4000 });
   for (id, kind, text) in wellformed.iter().take(n_wf) {
      all.push(serde_json::json!({"id": id, "kind": kind, "text": text, "operator": "none(well-formed base)", "site": "", "expect": "accept_wellformed"}));
   }
   std::fs::write(o.out.join("cases.json"), serde_json::to_string(&all).unwrap()).unwrap();
   // rustc tier: a seeded sample of the ill-formed programs (all operators), and everything the front end accepts
   let mut r = rng_for("C15-rustc", o.seed, 0);
   let sample_n = if o.tier == "quick" { 60 } else { 400 };
   let mut picked: Vec<&IllCase> = vec![];
   for op in OPERATORS {
      let of_op: Vec<&IllCase> = cases.iter().filter(|c| c.operator == *op).collect();
      for c in of_op.iter().take(2) {
         picked.push(c);
      }
   }
   while picked.len() < sample_n.min(cases.len()) {
      let c = &cases[r.below(cases.len())];
      if !picked.iter().any(|p| p.id == c.id) {
         picked.push(c);
      }
   }
   // (first one case per (site class, macro) combination, then the first ones in generation order)
   let accept_n = if o.tier == "quick" { 40 } else { 150 };
   let mut seen_combo = std::collections::BTreeSet::new();
   let mut n_acc = 0;
   for c in cases.iter().filter(|c| c.expect_inproc == "accept") {
      if n_acc < accept_n && seen_combo.insert((c.site.clone(), c.kind.clone())) && !picked.iter().any(|p| p.id == c.id) {
         picked.push(c);
         n_acc += 1;
      }
   }
   for c in cases.iter().filter(|c| c.expect_inproc == "accept") {
      if n_acc < accept_n && !picked.iter().any(|p| p.id == c.id) {
         picked.push(c);
         n_acc += 1;
      }
   }
   let mods: Vec<(String, String, String)> = picked.iter().map(|c| (c.id.clone(), c.kind.clone(), c.text.clone())).collect();
   let ranges = write_crate(&o.out.join("ill"), "c15_ill", &o.engine, &mods);
   let meta: Vec<serde_json::Value> = picked
      .iter()
      .zip(ranges.iter())
      .map(|(c, (m, a, b))| serde_json::json!({"module": m, "from": a, "to": b, "operator": c.operator, "site": c.site, "kind": c.kind}))
      .collect();
   std::fs::write(o.out.join("ill_modules.json"), serde_json::to_string(&meta).unwrap()).unwrap();
   let wf = known_rejected_wellformed();
   let ranges = write_crate(&o.out.join("wf"), "c15_wf", &o.engine, &wf);
   let meta: Vec<serde_json::Value> = ranges.iter().map(|(m, a, b)| serde_json::json!({"module": m, "from": a, "to": b})).collect();
   std::fs::write(o.out.join("wf_modules.json"), serde_json::to_string(&meta).unwrap()).unwrap();
   println!("C15: {} ill-formed cases, {} well-formed bases, {} modules for rustc", cases.len(), n_wf, picked.len());
}
