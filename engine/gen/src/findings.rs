//! Hand-written minimal programs + inputs for the committed replays of known findings (`vgen --emit-findings DIR`).

use std::path::Path;

use vcore::ast::*;
use vcore::print::{Kind, PrintOpts};
use vcore::val::{Db, Val};

use crate::meta;

fn v(x: &str) -> Expr { Expr::Var(x.into()) }
fn av(x: &str) -> Arg { Arg::Var(x.into()) }
fn cl(rel: &str, args: Vec<Arg>) -> BodyItem { BodyItem::Clause { rel: rel.into(), args, conds: vec![] } }
fn hd(rel: &str, args: Vec<Expr>) -> HeadItem { HeadItem::Clause { rel: rel.into(), args } }
fn rel(name: &str, cols: Vec<Ty>, input: bool) -> RelDecl {
   RelDecl { name: name.into(), cols, is_lattice: false, ds: None, is_input: input }
}
fn lat(name: &str, cols: Vec<Ty>) -> RelDecl {
   RelDecl { name: name.into(), cols, is_lattice: true, ds: None, is_input: false }
}
fn i(n: i64) -> Val { Val::I(n) }

fn write(dir: &Path, file: &str, prop: &str, base: &str, prog: Program, kind: Kind, attrs: Vec<&str>, input: Db) {
   let mut opts = PrintOpts::plain(kind);
   opts.attrs = attrs.iter().map(|s| s.to_string()).collect();
   let mut m = meta(base, if kind.is_par() { "par" } else { "ser" }, kind, true);
   m.attrs = opts.attrs.clone();
   let text = vcore::print::program_text(&prog, &opts);
   let j = serde_json::json!({
      "property": prop, "base": base, "seed": 0, "tier": "quick",
      "program_text": text,
      "members": [{"ast": prog, "opts": opts, "meta": m}],
      "input": input,
   });
   std::fs::create_dir_all(dir).unwrap();
   std::fs::write(dir.join(file), serde_json::to_string_pretty(&j).unwrap()).unwrap();
}

fn set_single_of_w() -> Expr {
   Expr::SetSingle(Box::new(Expr::Cast(Box::new(Expr::AddMod(Box::new(v("w")), 0, 4)), Ty::U8)))
}

fn kf3_base() -> (Vec<RelDecl>, Vec<Rule>, Db) {
   let rels = vec![
      rel("src", vec![Ty::I32, Ty::U32], true),
      lat("lat", vec![Ty::I32, Ty::SetU8]),
      rel("obs", vec![Ty::I32, Ty::SetU8], false),
   ];
   let rules = vec![
      Rule { heads: vec![hd("lat", vec![v("x"), set_single_of_w()])], body: vec![cl("src", vec![av("x"), av("w")])] },
      Rule { heads: vec![hd("obs", vec![v("x"), v("s")])], body: vec![cl("lat", vec![av("x"), av("s")])] },
   ];
   let mut db = Db::default();
   db.rels.insert("src".into(), vec![vec![i(1), i(0)], vec![i(1), i(2)], vec![i(2), i(2)]]);
   (rels, rules, db)
}

pub fn emit(dir: &Path) {
   // KF-3a: body clause over a lattice with the lattice column bound, in a later stratum
   {
      let (mut rels, mut rules, db) = kf3_base();
      rels.push(rel("hit", vec![Ty::I32, Ty::I32], false));
      rules.push(Rule {
         heads: vec![hd("hit", vec![v("y"), v("x")])],
         body: vec![cl("obs", vec![av("y"), av("s")]), cl("lat", vec![av("x"), av("s")])],
      });
      write(dir, "KF-3a.json", "C03", "KF-3a", Program { rels, rules, macros: vec![] }, Kind::Ascent, vec![], db);
   }
   // KF-3b: aggregate over a lattice with the lattice column bound
   {
      let (mut rels, mut rules, db) = kf3_base();
      rels.push(rel("cnt", vec![Ty::I32, Ty::I32], false));
      rules.push(Rule {
         heads: vec![hd("cnt", vec![v("y"), Expr::Cast(Box::new(v("n")), Ty::I32)])],
         body: vec![
            cl("obs", vec![av("y"), av("s")]),
            BodyItem::Agg { pat: Pat::Var("n".into()), agg: Aggregator::Count, bound: vec![], rel: "lat".into(), args: vec![Arg::Wild, av("s")] },
         ],
      });
      write(dir, "KF-3b.json", "C04", "KF-3b", Program { rels, rules, macros: vec![] }, Kind::Ascent, vec![], db);
   }
   // KF-3c: the join form: the first two clauses are joined on the lattice column of the first one, and the planner
   // drives the loop from the second clause, looking the lattice relation up through stale keys
   {
      let rels = vec![rel("arc", vec![Ty::I32, Ty::U32], true), lat("dep", vec![Ty::U32]), rel("low", vec![Ty::I32], false)];
      let rules = vec![
         Rule { heads: vec![hd("dep", vec![v("r")])], body: vec![cl("arc", vec![Arg::Wild, av("r")])] },
         Rule { heads: vec![hd("low", vec![v("en")])], body: vec![cl("dep", vec![av("zc")]), cl("arc", vec![av("en"), av("zc")])] },
      ];
      let mut db = Db::default();
      let arc = [(0, 0), (4, 2), (1, 2), (3, 0), (2, 2), (1, 4), (4, 4), (4, 0), (2, 1), (0, 4), (0, 1), (1, 1), (4, 1)];
      db.rels.insert("arc".into(), arc.iter().map(|(a, b)| vec![i(*a), i(*b)]).collect());
      write(dir, "KF-3c.json", "C03", "KF-3c", Program { rels, rules, macros: vec![] }, Kind::Ascent, vec![], db);
   }
   // KF-3d: every column of the lattice clause bound (the lattice column by an earlier clause): the all-columns index
   // of a lattice is never written, so the clause matches nothing
   {
      let rels = vec![
         rel("src", vec![Ty::I32, Ty::U32], true),
         lat("lat", vec![Ty::I32, Ty::U32]),
         rel("obs", vec![Ty::I32, Ty::U32], false),
         rel("both", vec![Ty::I32], false),
      ];
      let rules = vec![
         Rule { heads: vec![hd("lat", vec![v("x"), v("w")])], body: vec![cl("src", vec![av("x"), av("w")])] },
         Rule { heads: vec![hd("obs", vec![v("x"), v("s")])], body: vec![cl("lat", vec![av("x"), av("s")])] },
         Rule { heads: vec![hd("both", vec![v("x")])], body: vec![cl("obs", vec![av("x"), av("s")]), cl("lat", vec![av("x"), av("s")])] },
      ];
      let mut db = Db::default();
      db.rels.insert("src".into(), vec![vec![i(2), i(0)], vec![i(1), i(2)], vec![i(1), i(1)]]);
      write(dir, "KF-3d.json", "C03", "KF-3d", Program { rels, rules, macros: vec![] }, Kind::Ascent, vec![], db);
   }
   // KF-5: parallel lattice whose non-key indices are Vec-backed: a row number is appended once per improvement
   {
      let rels = vec![
         rel("edge", vec![Ty::I32, Ty::I32, Ty::U32], true),
         lat("sp", vec![Ty::I32, Ty::I32, Ty::DualU32]),
         rel("cnt", vec![Ty::I32, Ty::I32], false),
      ];
      let rules = vec![
         Rule {
            heads: vec![hd("sp", vec![v("x"), v("y"), Expr::DualOf(Box::new(v("w")))])],
            body: vec![cl("edge", vec![av("x"), av("y"), av("w")])],
         },
         Rule {
            heads: vec![hd("sp", vec![v("x"), v("z"), Expr::DualOf(Box::new(Expr::SatAdd(Box::new(v("w")), Box::new(v("l")), 50)))])],
            body: vec![
               cl("edge", vec![av("x"), av("y"), av("w")]),
               cl("sp", vec![av("y"), av("z"), Arg::Pat(Pat::Dual(Box::new(Pat::Var("l".into()))))]),
            ],
         },
         Rule {
            heads: vec![hd("cnt", vec![v("x"), Expr::Cast(Box::new(v("n")), Ty::I32)])],
            body: vec![
               cl("edge", vec![av("x"), Arg::Wild, Arg::Wild]),
               BodyItem::Agg { pat: Pat::Var("n".into()), agg: Aggregator::Count, bound: vec![], rel: "sp".into(), args: vec![av("x"), Arg::Wild, Arg::Wild] },
            ],
         },
      ];
      let mut db = Db::default();
      // a long light path and short heavy edges: sp(1, 4) improves several times
      db.rels.insert(
         "edge".into(),
         vec![
            vec![i(1), i(2), i(1)], vec![i(2), i(3), i(1)], vec![i(3), i(4), i(1)],
            vec![i(1), i(4), i(20)], vec![i(1), i(3), i(9)], vec![i(2), i(4), i(7)],
         ],
      );
      write(dir, "KF-5.json", "C02", "KF-5", Program { rels, rules, macros: vec![] }, Kind::AscentPar, vec![], db);
   }
   // KF-6: second run() of a serial program with an aggregate over a Vec-backed index
   {
      let rels = vec![rel("edge", vec![Ty::I32, Ty::I32], true), rel("total", vec![Ty::I32, Ty::I32], false)];
      let rules = vec![Rule {
         heads: vec![hd("total", vec![v("x"), v("s")])],
         body: vec![
            cl("edge", vec![av("x"), Arg::Wild]),
            BodyItem::Agg { pat: Pat::Var("s".into()), agg: Aggregator::Sum, bound: vec!["y".into()], rel: "edge".into(), args: vec![av("x"), av("y")] },
         ],
      }];
      let mut db = Db::default();
      db.rels.insert("edge".into(), vec![vec![i(1), i(2)], vec![i(1), i(3)], vec![i(2), i(5)]]);
      write_hist(dir, "KF-6.json", "C13", "KF-6", Program { rels, rules, macros: vec![] }, Kind::Ascent, db, "[\"Run\",\"Run\"]");
   }
   // KF-7: second run() of a parallel transitive closure
   {
      let rels = vec![rel("edge", vec![Ty::I32, Ty::I32], true), rel("path", vec![Ty::I32, Ty::I32], false)];
      let rules = vec![
         Rule { heads: vec![hd("path", vec![v("x"), v("y")])], body: vec![cl("edge", vec![av("x"), av("y")])] },
         Rule {
            heads: vec![hd("path", vec![v("x"), v("z")])],
            body: vec![cl("edge", vec![av("x"), av("y")]), cl("path", vec![av("y"), av("z")])],
         },
      ];
      let mut db = Db::default();
      db.rels.insert("edge".into(), vec![vec![i(1), i(2)], vec![i(2), i(3)]]);
      write_hist(dir, "KF-7.json", "C13", "KF-7", Program { rels, rules, macros: vec![] }, Kind::AscentPar, db, "[\"Run\",\"Run\"]");
   }
   // KF-8: macro-local variable used in a condition attached to a clause of the macro body; call-site variable of the
   // same name in scope
   {
      let rels = vec![
         rel("foo", vec![Ty::I32], true),
         rel("reach", vec![Ty::I32, Ty::I32], true),
         rel("out", vec![Ty::I32], false),
      ];
      let mac = MacroDef {
         name: "mq".into(),
         params: vec![MacroParam { name: "p0".into(), is_ident: true, ty: Ty::I32, role: "soft".into() }],
         body: vec![BodyItem::Clause {
            rel: "reach".into(),
            args: vec![av("$p0"), av("x")],
            conds: vec![Cond::If(Expr::Cmp(CmpOp::Le, Box::new(Expr::Int(4, Ty::I32)), Box::new(v("x"))))],
         }],
         head: vec![],
         is_head: false,
         trailing_comma: false,
      };
      let rules = vec![Rule {
         heads: vec![hd("out", vec![v("a")])],
         body: vec![
            cl("foo", vec![av("x")]),
            BodyItem::MacroCall { name: "mq".into(), args: vec![MacroArg { is_ident: true, ident: "a".into(), expr: None }] },
         ],
      }];
      let mut db = Db::default();
      db.rels.insert("foo".into(), vec![vec![i(1)]]);
      db.rels.insert("reach".into(), vec![vec![i(7), i(9)], vec![i(8), i(2)]]);
      write(dir, "KF-8.json", "C08", "KF-8", Program { rels, rules, macros: vec![mac] }, Kind::Ascent, vec![], db);
   }
   // KF-22: a unit-like identifier pattern (`None`) inside a macro body is renamed like a macro-local variable and
   // becomes a binder that matches everything
   {
      let rels = vec![rel("hop", vec![Ty::I32, Ty::OptI32], true), rel("out", vec![Ty::I32, Ty::I32], false)];
      let mac = MacroDef {
         name: "mq".into(),
         params: vec![
            MacroParam { name: "p0".into(), is_ident: true, ty: Ty::I32, role: "soft".into() },
            MacroParam { name: "p1".into(), is_ident: true, ty: Ty::I32, role: "hard".into() },
         ],
         body: vec![
            BodyItem::Clause { rel: "hop".into(), args: vec![av("$p0"), av("y")], conds: vec![] },
            BodyItem::Cond(Cond::IfLet(Pat::Some_(Box::new(Pat::Var("$p1".into()))), v("y"))),
            BodyItem::Clause { rel: "hop".into(), args: vec![av("$p1"), av("y")], conds: vec![Cond::IfLet(Pat::None_, v("y"))] },
         ],
         head: vec![],
         is_head: false,
         trailing_comma: false,
      };
      let call = |a: &str, b: &str| BodyItem::MacroCall {
         name: "mq".into(),
         args: vec![MacroArg { is_ident: true, ident: a.into(), expr: None }, MacroArg { is_ident: true, ident: b.into(), expr: None }],
      };
      let rules = vec![Rule { heads: vec![hd("out", vec![v("a"), v("b")])], body: vec![call("a", "b")] }];
      let mut db = Db::default();
      db.rels.insert("hop".into(), vec![vec![i(2), Val::some(i(2))], vec![i(2), Val::None_]]);
      write(dir, "KF-22.json", "C08", "KF-22", Program { rels, rules, macros: vec![mac] }, Kind::Ascent, vec![], db);
   }
   // KF-11: ternary eqrel filled in a recursive stratum
   {
      let k = Ty::I32;
      let t = Ty::U32;
      let mut rr = rel("rr", vec![k, t, t], false);
      rr.ds = Some(Ds::EqRel);
      let rels = vec![rr, rel("edge", vec![k, t, t], true), rel("nxt", vec![t, t], true), rel("out", vec![k, t, t], false)];
      let rules = vec![
         Rule { heads: vec![hd("rr", vec![v("k"), v("x"), v("y")])], body: vec![cl("edge", vec![av("k"), av("x"), av("y")])] },
         Rule {
            heads: vec![hd("rr", vec![v("k"), v("y"), v("z")])],
            body: vec![cl("rr", vec![av("k"), av("y"), av("x")]), cl("nxt", vec![av("y"), av("z")])],
         },
         Rule { heads: vec![hd("out", vec![v("k"), v("x"), v("y")])], body: vec![cl("rr", vec![av("k"), av("x"), av("y")])] },
      ];
      let mut db = Db::default();
      db.rels.insert("edge".into(), vec![vec![i(0), i(0), i(0)], vec![i(1), i(2), i(2)]]);
      db.rels.insert("nxt".into(), vec![vec![i(0), i(1)], vec![i(2), i(0)]]);
      write(dir, "KF-11.json", "C10", "KF-11", Program { rels, rules, macros: vec![] }, Kind::Ascent, vec![], db);
   }
   // KF-12: ternary eqrel, delta pair implied for an element that was not mentioned in the iteration
   {
      let k = Ty::I32;
      let t = Ty::U32;
      let mut rr = rel("rr", vec![k, t, t], false);
      rr.ds = Some(Ds::EqRel);
      let rels = vec![
         rr,
         rel("edge", vec![k, t, t], true),
         rel("nxt", vec![t, t], true),
         rel("pairs", vec![t, t], true),
         rel("out", vec![k, t, t], false),
      ];
      let rules = vec![
         Rule { heads: vec![hd("rr", vec![v("k"), v("x"), v("y")])], body: vec![cl("edge", vec![av("k"), av("x"), av("y")])] },
         Rule {
            heads: vec![hd("rr", vec![v("k"), v("x"), v("zz")])],
            body: vec![cl("pairs", vec![av("x"), av("y")]), cl("rr", vec![av("k"), av("x"), av("y")]), cl("nxt", vec![av("y"), av("zz")])],
         },
         Rule { heads: vec![hd("out", vec![v("k"), v("x"), v("y")])], body: vec![cl("rr", vec![av("k"), av("x"), av("y")])] },
      ];
      let mut db = Db::default();
      db.rels.insert("edge".into(), vec![vec![i(0), i(2), i(4)]]);
      db.rels.insert("pairs".into(), vec![vec![i(2), i(2)], vec![i(4), i(1)]]);
      db.rels.insert("nxt".into(), vec![vec![i(2), i(1)], vec![i(1), i(0)]]);
      write(dir, "KF-12.json", "C10", "KF-12", Program { rels, rules, macros: vec![] }, Kind::Ascent, vec![], db);
   }
   // KF-13: binary trrel_uf, element first mentioned inside the looping stratum
   {
      let t = Ty::U32;
      let mut rr = rel("rr", vec![t, t], false);
      rr.ds = Some(Ds::TrRelUf);
      let rels = vec![rr, rel("edge", vec![t, t], true), rel("nxt", vec![t, t], true), rel("out", vec![t, t], false)];
      let rules = vec![
         Rule { heads: vec![hd("rr", vec![v("x"), v("y")])], body: vec![cl("edge", vec![av("x"), av("y")])] },
         Rule { heads: vec![hd("rr", vec![v("y"), v("z")])], body: vec![cl("rr", vec![av("y"), av("x")]), cl("nxt", vec![av("y"), av("z")])] },
         Rule { heads: vec![hd("out", vec![v("x"), v("y")])], body: vec![cl("rr", vec![av("x"), av("y")])] },
      ];
      let mut db = Db::default();
      db.rels.insert("edge".into(), vec![vec![i(0), i(0)]]);
      db.rels.insert("nxt".into(), vec![vec![i(0), i(1)], vec![i(1), i(0)]]);
      write(dir, "KF-13.json", "C12", "KF-13", Program { rels, rules, macros: vec![] }, Kind::Ascent, vec![], db);
   }
   // KF-14a: ternary trrel_uf read without binding the key
   {
      let t = Ty::U32;
      let mut rr = rel("rr", vec![t, t, t], false);
      rr.ds = Some(Ds::TrRelUf);
      let rels = vec![rr, rel("edge", vec![t, t, t], true), rel("probe", vec![t], true), rel("out", vec![t, t, t], false)];
      let rules = vec![
         Rule { heads: vec![hd("rr", vec![v("k"), v("x"), v("y")])], body: vec![cl("edge", vec![av("k"), av("x"), av("y")])] },
         Rule {
            heads: vec![hd("out", vec![v("k"), v("x"), v("y")])],
            body: vec![cl("probe", vec![av("y")]), cl("rr", vec![av("k"), av("x"), av("y")])],
         },
      ];
      let mut db = Db::default();
      db.rels.insert("edge".into(), vec![vec![i(0), i(0), i(1)]]);
      db.rels.insert("probe".into(), vec![vec![i(0)]]);
      write(dir, "KF-14a.json", "C12", "KF-14a", Program { rels, rules, macros: vec![] }, Kind::Ascent, vec![], db);
   }
   // KF-14b: ternary trrel_uf, a key receives facts, pauses, and resumes inside a looping stratum
   {
      let t = Ty::U32;
      let mut rr = rel("rr", vec![t, t, t], false);
      rr.ds = Some(Ds::TrRelUf);
      let rels = vec![
         rr,
         rel("edge", vec![t, t, t], true),
         rel("stage", vec![Ty::I32, t, t, t], true),
         rel("tick", vec![Ty::I32], false),
         rel("out", vec![t, t, t], false),
      ];
      let rules = vec![
         Rule { heads: vec![hd("rr", vec![v("k"), v("x"), v("y")])], body: vec![cl("edge", vec![av("k"), av("x"), av("y")])] },
         Rule { heads: vec![hd("tick", vec![Expr::Int(0, Ty::I32)])], body: vec![] },
         Rule {
            heads: vec![hd("tick", vec![Expr::SatAdd(Box::new(v("i")), Box::new(Expr::Int(1, Ty::I32)), 6)])],
            body: vec![cl("tick", vec![av("i")]), cl("rr", vec![Arg::Wild, Arg::Wild, Arg::Wild])],
         },
         Rule {
            heads: vec![hd("rr", vec![v("k"), v("x"), v("y")])],
            body: vec![cl("tick", vec![av("i")]), cl("stage", vec![av("i"), av("k"), av("x"), av("y")])],
         },
         Rule { heads: vec![hd("out", vec![v("k"), v("x"), v("y")])], body: vec![cl("rr", vec![av("k"), av("x"), av("y")])] },
      ];
      let mut db = Db::default();
      db.rels.insert("edge".into(), vec![vec![i(0), i(1), i(2)]]);
      db.rels.insert("stage".into(), vec![vec![i(3), i(0), i(5), i(6)]]);
      write(dir, "KF-14b.json", "C12", "KF-14b", Program { rels, rules, macros: vec![] }, Kind::Ascent, vec![], db);
   }
}

fn write_hist(dir: &Path, file: &str, prop: &str, base: &str, prog: Program, kind: Kind, input: Db, ops: &str) {
   write(dir, file, prop, base, prog, kind, vec![], input);
   let p = dir.join(file);
   let mut j: serde_json::Value = serde_json::from_str(&std::fs::read_to_string(&p).unwrap()).unwrap();
   j["ops"] = serde_json::Value::String(ops.to_string());
   std::fs::write(&p, serde_json::to_string_pretty(&j).unwrap()).unwrap();
}
