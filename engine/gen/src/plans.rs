//! Which programs / variants are generated for which property and tier.

use vcore::gen::{self, GenCfg};
use vcore::print::{Kind, PrintOpts};

use crate::{meta, rng_for, GroupSpec, MemberSpec, Opts};

fn n_programs(o: &Opts, quick: usize, thorough: usize) -> usize {
   o.programs.unwrap_or(if o.tier == "quick" { quick } else { thorough })
}

pub fn plan(o: &Opts) -> Vec<GroupSpec> {
   match o.prop.as_str() {
      "C01" => plan_c01(o),
      "C04" => plan_simple(o, "C04", 120, 1500, |r| { let l = vcore::rng::Src::chance(r, 30); gen::gen_strat(r, &GenCfg::core(), l) }),
      "C03" => plan_simple(o, "C03", 120, 1500, |r| vcore::gen_lat::gen_lattice(r, &GenCfg::core())),
      other => panic!("no plan for property {other}"),
   }
}

fn plan_c01(o: &Opts) -> Vec<GroupSpec> {
   let n = n_programs(o, 160, 960);
   let cfg = GenCfg::core();
   (0..n)
      .map(|i| {
         let mut r = rng_for("C01", o.seed, i as u64);
         let prog = gen::gen_core(&mut r, &cfg);
         let base = format!("C01-s{}-{}", o.seed, i);
         GroupSpec {
            members: vec![MemberSpec { prog, opts: PrintOpts::plain(Kind::Ascent), meta: meta(&base, "ser", Kind::Ascent, true) }],
         }
      })
      .collect()
}

fn plan_simple(o: &Opts, prop: &str, quick: usize, thorough: usize, f: impl Fn(&mut crate::PtRng) -> vcore::ast::Program) -> Vec<GroupSpec> {
   let n = n_programs(o, quick, thorough);
   (0..n)
      .map(|i| {
         let mut r = rng_for(prop, o.seed, i as u64);
         let prog = f(&mut r);
         let base = format!("{prop}-s{}-{}", o.seed, i);
         GroupSpec {
            members: vec![MemberSpec { prog, opts: PrintOpts::plain(Kind::Ascent), meta: meta(&base, "ser", Kind::Ascent, true) }],
         }
      })
      .collect()
}
