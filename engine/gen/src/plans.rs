//! Which programs / variants are generated for which property and tier.

use vcore::gen::{self, GenCfg};
use vcore::print::{Kind, PrintOpts};

use crate::{meta, rng_for, GroupSpec, MemberSpec, Opts};

fn n_programs(o: &Opts, quick: usize, thorough: usize) -> usize {
   o.programs.unwrap_or(if o.tier == "quick" { quick } else { thorough })
}

pub fn plan(o: &Opts) -> Vec<GroupSpec> {
   match o.prop.as_str() {
      "C01" => plan_c01(o),
      // (every tenth program: negation and counting over a BYODS relation, which reads the provider's own indices)
      "C04" => plan_simple(o, "C04", 120, 1500, |r| {
         if vcore::rng::Src::chance(r, 10) {
            let ds = *vcore::rng::Src::pick(r, &[vcore::ast::Ds::EqRel, vcore::ast::Ds::TrRel, vcore::ast::Ds::TrRelUf]);
            let ternary = vcore::rng::Src::chance(r, 40);
            return vcore::gen_ds::gen_byods(r, &GenCfg::core(), ds, ternary);
         }
         let l = vcore::rng::Src::chance(r, 30) || std::env::var("VERIF_C04_FORCE_LAT").is_ok();
         gen::gen_strat(r, &GenCfg::core(), l)
      }),
      // (every fifth program is built around a binary eqrel relation, the provider that has a parallel implementation)
      "C02" => plan_par(o, "C02", 72, 720, true, |r| {
         if vcore::rng::Src::chance(r, 22) {
            let mut p = vcore::gen_ds::gen_byods(r, &GenCfg::core(), vcore::ast::Ds::EqRel, false);
            // the rules the parallel front end rejects (open finding KF-9) are left out: more of these programs get parallel members
            for _ in 0..gen::drop_kf9_rules(&mut p) {
               crate::count_excluded("KF-9 (rule left out of a C02 eqrel program)");
            }
            p
         } else {
            gen::gen_any(r, &GenCfg::core())
         }
      }),
      "C05" => plan_par(o, "C05", 96, 960, false, |r| gen::gen_rederive(r, &GenCfg::core())),
      "C06" => plan_c06(o),
      "C07" => plan_c07(o),
      "C08" => plan_c08(o),
      "C09" => plan_c09(o),
      "C10" => plan_ds(o, "C10", vcore::ast::Ds::EqRel),
      "C11" => plan_ds(o, "C11", vcore::ast::Ds::TrRel),
      "C12" => plan_ds(o, "C12", vcore::ast::Ds::TrRelUf),
      "C13" => plan_c13(o),
      "C14" => plan_c14(o),
      "C20" => plan_par(o, "C20", 30, 120, false, |r| {
         // every fifth program is built around a binary eqrel relation (its parallel provider has scans and merges of its own)
         if vcore::rng::Src::chance(r, 20) {
            let mut p = vcore::gen_ds::gen_byods(r, &GenCfg::core(), vcore::ast::Ds::EqRel, false);
            // the rules the parallel front end rejects (open finding KF-9) are left out, so that the program has a parallel member
            for _ in 0..gen::drop_kf9_rules(&mut p) {
               crate::count_excluded("KF-9 (rule left out of a C20 eqrel program)");
            }
            p
         } else {
            gen::gen_any(r, &GenCfg::core())
         }
      }),
      "C03" => plan_simple(o, "C03", 120, 1500, |r| vcore::gen_lat::gen_lattice(r, &GenCfg::core())),
      other => panic!("no plan for property {other}"),
   }
}

fn plan_c01(o: &Opts) -> Vec<GroupSpec> {
   let n = n_programs(o, 160, 960);
   let cfg = GenCfg::core();
   (0..n)
      .map(|i| {
         let mut r = rng_for("C01", o.seed, i as u64);
         let prog = gen::gen_core(&mut r, &cfg);
         let base = format!("C01-s{}-{}", o.seed, i);
         let mut members = vec![MemberSpec { prog: prog.clone(), opts: PrintOpts::plain(Kind::Ascent), meta: meta(&base, "ser", Kind::Ascent, true) }];
         // the property does not depend on the macro form: every third program also as ascent_par! (pool of 4 threads)
         if i % 3 == 2 && gen::par_rejects(&prog).is_none() {
            members.push(MemberSpec { prog, opts: PrintOpts::plain(Kind::AscentPar), meta: meta(&base, "par", Kind::AscentPar, false) });
         }
         GroupSpec { members }
      })
      .collect()
}

fn plan_simple(o: &Opts, prop: &str, quick: usize, thorough: usize, f: impl Fn(&mut crate::PtRng) -> vcore::ast::Program) -> Vec<GroupSpec> {
   let n = n_programs(o, quick, thorough);
   (0..n)
      .map(|i| {
         let mut r = rng_for(prop, o.seed, i as u64);
         let prog = f(&mut r);
         let base = format!("{prop}-s{}-{}", o.seed, i);
         let mut members = vec![MemberSpec { prog: prog.clone(), opts: PrintOpts::plain(Kind::Ascent), meta: meta(&base, "ser", Kind::Ascent, true) }];
         // C03 / C04: every second program also in its parallel form (lattices, aggregates and negation use other index
         // types and another head update there)
         if (prop == "C04" || prop == "C03") && i % 2 == 1 && gen::par_rejects(&prog).is_none() && prog.rels.iter().all(|d| d.ds.is_none()) {
            members.push(MemberSpec { prog, opts: PrintOpts::plain(Kind::AscentPar), meta: meta(&base, "par", Kind::AscentPar, false) });
         }
         GroupSpec { members }
      })
      .collect()
}

/// serial reference + parallel variants of the same program
fn plan_par(o: &Opts, prop: &str, quick: usize, thorough: usize, all_forms: bool, f: impl Fn(&mut crate::PtRng) -> vcore::ast::Program) -> Vec<GroupSpec> {
   let n = n_programs(o, quick, thorough);
   let mut out = vec![];
   let mut i = 0u64;
   while out.len() < n {
      let mut r = rng_for(prop, o.seed, i);
      i += 1;
      let prog = f(&mut r);
      if let Some(kf) = gen::par_rejects(&prog) {
         crate::count_excluded(kf);
         continue;
      }
      let base = format!("{prop}-s{}-{}", o.seed, i - 1);
      let mut members =
         vec![MemberSpec { prog: prog.clone(), opts: PrintOpts::plain(Kind::Ascent), meta: meta(&base, "ser", Kind::Ascent, true) }];
      members.push(MemberSpec { prog: prog.clone(), opts: PrintOpts::plain(Kind::AscentPar), meta: meta(&base, "par", Kind::AscentPar, false) });
      // C20: every second program, C05: every third program also with rule-level parallelism (other generated code around
      // the per-iteration state; several rules inserting into one relation at the same time)
      if all_forms || (prop == "C20" && i % 2 == 0) || (prop == "C05" && i % 3 == 0) {
         let mut opts = PrintOpts::plain(Kind::AscentPar);
         opts.attrs = vec!["inter_rule_parallelism".into()];
         let mut m = meta(&base, "par_inter_rule", Kind::AscentPar, false);
         m.attrs = opts.attrs.clone();
         members.push(MemberSpec { prog: prog.clone(), opts, meta: m });
         let no_nullary = prog.rels.iter().all(|d| !d.cols.is_empty());
         let byods = prog.rels.iter().any(|d| d.ds.is_some());
         if all_forms && i % 3 == 0 && no_nullary && !byods {
            members.push(MemberSpec {
               prog: prog.clone(),
               opts: PrintOpts::plain(Kind::AscentRunPar),
               meta: meta(&base, "run_par", Kind::AscentRunPar, false),
            });
         }
      }
      out.push(GroupSpec { members });
   }
   out
}

/// C13: every plain relation can be pushed into; serial and parallel forms
fn plan_c13(o: &Opts) -> Vec<GroupSpec> {
   let n = n_programs(o, 100, 800);
   let mut out = vec![];
   let mut i = 0u64;
   while out.len() < n {
      let mut r = rng_for("C13", o.seed, i);
      i += 1;
      // half of the programs are kept free of lattice observers so that lattice programs get monotone re-runs too
      let mut cfg = GenCfg::core();
      cfg.lat_observers = i % 2 == 0;
      let mut prog = if i % 5 == 4 {
         // a program around a BYODS relation: its data structure lives in the program value across runs (there is no
         // row vector to rebuild it from), so a re-run extends what the previous run left. The stratified readers
         // (negation, count) are dropped in two of three such programs so that pushes between runs are allowed.
         let ds = *vcore::rng::Src::pick(&mut r, &[vcore::ast::Ds::EqRel, vcore::ast::Ds::TrRel, vcore::ast::Ds::TrRelUf]);
         let ternary = vcore::rng::Src::chance(&mut r, 40);
         let mut p = vcore::gen_ds::gen_byods(&mut r, &cfg, ds, ternary);
         if i % 3 != 0 {
            p.rules.retain(|ru| !crate::plans::rule_has_strat(ru));
         }
         p
      } else {
         gen::gen_any(&mut r, &cfg)
      };
      for d in prog.rels.iter_mut() {
         if !d.is_lattice && d.ds.is_none() {
            d.is_input = true;
         }
      }
      let base = format!("C13-s{}-{}", o.seed, i - 1);
      // every third program writes the default provider out (`#[ds(ascent::rel)]`), which must not change anything
      let opts_of = |kind: Kind| {
         let mut op = PrintOpts::plain(kind);
         op.explicit_default_ds = i % 3 == 0;
         op
      };
      let mut m0 = meta(&base, "ser", Kind::Ascent, true);
      if i % 3 == 0 {
         m0.labels.push("default_provider_written_out".into());
      }
      let mut members = vec![MemberSpec { prog: prog.clone(), opts: opts_of(Kind::Ascent), meta: m0 }];
      let byods = prog.rels.iter().any(|d| d.ds.is_some());
      if gen::par_rejects(&prog).is_none() && i % 2 == 0 && !byods {
         members.push(MemberSpec { prog: prog.clone(), opts: opts_of(Kind::AscentPar), meta: meta(&base, "par", Kind::AscentPar, false) });
      }
      out.push(GroupSpec { members });
   }
   out
}

pub fn rule_has_strat(ru: &vcore::ast::Rule) -> bool {
   fn items(its: &[vcore::ast::BodyItem]) -> bool {
      its.iter().any(|it| match it {
         vcore::ast::BodyItem::Agg { .. } | vcore::ast::BodyItem::Neg { .. } => true,
         vcore::ast::BodyItem::Disj(ds) => ds.iter().any(|d| items(d)),
         _ => false,
      })
   }
   items(&ru.body)
}

/// C14: programs compiled with #![generate_run_timeout], serial and parallel
fn plan_c14(o: &Opts) -> Vec<GroupSpec> {
   let n = n_programs(o, 48, 400);
   let mut out = vec![];
   let mut i = 0u64;
   while out.len() < n {
      let mut r = rng_for("C14", o.seed, i);
      i += 1;
      // every sixth program is built around a BYODS relation (the provider's state must be resumable as well)
      let with_byods = i % 6 == 5;
      let prog = if with_byods {
         let ds = [vcore::ast::Ds::EqRel, vcore::ast::Ds::TrRel, vcore::ast::Ds::TrRelUf][vcore::rng::Src::below(&mut r, 3)];
         let ternary = vcore::rng::Src::chance(&mut r, 40);
         vcore::gen_ds::gen_byods(&mut r, &GenCfg::core(), ds, ternary)
      } else {
         gen::gen_any(&mut r, &GenCfg::core())
      };
      let base = format!("C14-s{}-{}", o.seed, i - 1);
      let mk = |kind: Kind, variant: &str, is_ref: bool| {
         let mut opts = PrintOpts::plain(kind);
         opts.attrs = vec!["generate_run_timeout".into()];
         let mut m = meta(&base, variant, kind, is_ref);
         m.attrs = opts.attrs.clone();
         MemberSpec { prog: prog.clone(), opts, meta: m }
      };
      let mut members = vec![mk(Kind::Ascent, "ser", true)];
      if gen::par_rejects(&prog).is_none() && i % 2 == 0 && !with_byods {
         members.push(mk(Kind::AscentPar, "par", false));
      }
      out.push(GroupSpec { members });
   }
   out
}

/// C06: reorderings, renamings, input order, injective constant renaming
fn plan_c06(o: &Opts) -> Vec<GroupSpec> {
   use vcore::xform::{self, Variant06};
   let n = n_programs(o, 64, 600);
   let mut out = vec![];
   for i in 0..n as u64 {
      let mut r = rng_for("C06", o.seed, i);
      let uninterpreted = i % 4 == 3;
      let mut cfg = GenCfg::core();
      cfg.uninterpreted = uninterpreted;
      // every sixth program has in-program macros (names of call-site variables must not matter there either)
      let with_macros = i % 6 == 5;
      // every seventh program is built around a BYODS relation (union-find / closure structures whose internal shape
      // depends on the order in which facts arrive; the results must not)
      let with_byods = !uninterpreted && !with_macros && i % 7 == 2;
      let prog = if uninterpreted {
         gen::gen_core(&mut r, &cfg)
      } else if with_byods {
         let ds = [vcore::ast::Ds::EqRel, vcore::ast::Ds::TrRel, vcore::ast::Ds::TrRelUf][vcore::rng::Src::below(&mut r, 3)];
         let ternary = vcore::rng::Src::chance(&mut r, 40);
         vcore::gen_ds::gen_byods(&mut r, &cfg, ds, ternary)
      } else if with_macros {
         vcore::gen_mac::gen_macros(&mut r, &cfg)
      } else {
         gen::gen_any(&mut r, &cfg)
      };
      if with_macros && (prog.macros.is_empty() || gen::kf2_shape(&xform::expand_macros(&prog))) {
         continue;
      }
      let base = format!("C06-s{}-{}", o.seed, i);
      let mut members =
         vec![MemberSpec { prog: prog.clone(), opts: PrintOpts::plain(Kind::Ascent), meta: meta(&base, "base", Kind::Ascent, true) }];
      let kinds = [Variant06::PermuteRules, Variant06::PermuteDecls, Variant06::PermuteHeads, Variant06::PermuteBodies, Variant06::Rename];
      // 3-4 variants chosen by seed
      let mut idx: Vec<usize> = (0..kinds.len()).collect();
      vcore::rng::Src::shuffle(&mut r, &mut idx);
      if with_macros {
         // the renaming variant always
         idx.retain(|&k| k != 4);
         idx.insert(0, 4);
      }
      for &k in idx.iter().take(3) {
         let (vp, rel_map) = xform::variant06(&mut r, &prog, &kinds[k]);
         if gen::kf2_shape(&vp) && GenCfg::core().excluded("KF-2") {
            crate::count_excluded("KF-2");
            continue;
         }
         let name = format!("{:?}", kinds[k]);
         let mut m = meta(&base, &name, Kind::Ascent, false);
         m.rel_map = rel_map;
         m.check_ast = true;
         m.labels = vec![format!("variant:{name}")];
         members.push(MemberSpec { prog: vp, opts: PrintOpts::plain(Kind::Ascent), meta: m });
      }
      {
         let mut m = meta(&base, "PermuteInput", Kind::Ascent, false);
         m.permute_input = true;
         m.labels = vec!["variant:PermuteInput".into()];
         members.push(MemberSpec { prog: prog.clone(), opts: PrintOpts::plain(Kind::Ascent), meta: m });
      }
      // plan choices that depend on hash values (shard placement, sampled length estimates) only exist in the parallel
      // form: every second program also runs as ascent_par!, and so do its constant-renamed variants
      let par_ok = gen::par_rejects(&prog).is_none() && i % 2 == 1 && !with_byods;
      if par_ok {
         let mut m = meta(&base, "base_par", Kind::AscentPar, false);
         m.labels = vec!["variant:base_par".into()];
         members.push(MemberSpec { prog: prog.clone(), opts: PrintOpts::plain(Kind::AscentPar), meta: m });
      }
      if uninterpreted {
         for scheme in ["big", "str"] {
            let vp = xform::rename_consts(&prog, scheme);
            if gen::kf2_shape(&vp) && GenCfg::core().excluded("KF-2") {
               crate::count_excluded("KF-2");
               continue;
            }
            let mut m = meta(&base, &format!("RenameConsts_{scheme}"), Kind::Ascent, false);
            m.val_map = Some(scheme.to_string());
            m.check_ast = true;
            m.labels = vec![format!("variant:RenameConsts_{scheme}")];
            members.push(MemberSpec { prog: vp.clone(), opts: PrintOpts::plain(Kind::Ascent), meta: m });
            if par_ok && gen::par_rejects(&vp).is_none() {
               let mut m = meta(&base, &format!("RenameConsts_{scheme}_par"), Kind::AscentPar, false);
               m.val_map = Some(scheme.to_string());
               m.labels = vec![format!("variant:RenameConsts_{scheme}_par")];
               members.push(MemberSpec { prog: vp, opts: PrintOpts::plain(Kind::AscentPar), meta: m });
            }
         }
      }
      out.push(GroupSpec { members });
   }
   out
}

/// C07: sugared program, the engine's core expansion of it (two flavours), and the reference on the sugared AST
fn plan_c07(o: &Opts) -> Vec<GroupSpec> {
   use vcore::xform;
   let n = n_programs(o, 80, 700);
   let mut out = vec![];
   for i in 0..n as u64 {
      let mut r = rng_for("C07", o.seed, i);
      // every sixth program is built around a BYODS relation: constants, repeated variables, wildcards and negation on
      // a relation whose provider answers an indexed lookup and a scan through different code
      let with_byods = i % 6 == 4;
      let prog = if with_byods {
         let ds = [vcore::ast::Ds::EqRel, vcore::ast::Ds::TrRel, vcore::ast::Ds::TrRelUf][vcore::rng::Src::below(&mut r, 3)];
         let ternary = vcore::rng::Src::chance(&mut r, 40);
         vcore::gen_ds::gen_byods(&mut r, &GenCfg::core(), ds, ternary)
      } else {
         gen::gen_sugar(&mut r, &GenCfg::core())
      };
      if gen::kf2_shape(&prog) && GenCfg::core().excluded("KF-2") {
         crate::count_excluded("KF-2");
         continue;
      }
      let base = format!("C07-s{}-{}", o.seed, i);
      let mut members =
         vec![MemberSpec { prog: prog.clone(), opts: PrintOpts::plain(Kind::Ascent), meta: meta(&base, "sugared", Kind::Ascent, true) }];
      // the sugared form also as ascent_par! in every third group (its plans use other index types than the expansion's)
      if i % 3 == 2 && !with_byods && gen::par_rejects(&prog).is_none() {
         members.push(MemberSpec { prog: prog.clone(), opts: PrintOpts::plain(Kind::AscentPar), meta: meta(&base, "sugared_par", Kind::AscentPar, false) });
      }
      for (name, split) in [("core", false), ("core_split_joins", true)] {
         if name == "core_split_joins" && i % 2 == 1 {
            continue;
         }
         let core = xform::desugar(&prog, split);
         let mut m = meta(&base, name, Kind::Ascent, false);
         m.check_ast = true;
         members.push(MemberSpec { prog: core, opts: PrintOpts::plain(Kind::Ascent), meta: m });
      }
      out.push(GroupSpec { members });
   }
   out
}

/// C08: program with macros, its hand expansion (the engine's hygienic reference expander), reference on the expansion
fn plan_c08(o: &Opts) -> Vec<GroupSpec> {
   use vcore::xform;
   let n = n_programs(o, 80, 700);
   let mut out = vec![];
   let mut i = 0u64;
   while out.len() < n {
      let mut r = rng_for("C08", o.seed, i);
      i += 1;
      let prog = vcore::gen_mac::gen_macros(&mut r, &GenCfg::core());
      if prog.macros.is_empty() {
         continue;
      }
      if std::env::var("VERIF_DEBUG_GEN").is_ok() {
         eprintln!("--- program {}:\n{}", i - 1, serde_json::to_string(&prog).unwrap());
      }
      let expanded = xform::expand_macros(&prog);
      if gen::kf2_shape(&expanded) && GenCfg::core().excluded("KF-2") {
         crate::count_excluded("KF-2");
         continue;
      }
      if gen::kf20_shape(&expanded) && GenCfg::core().excluded("KF-20") {
         crate::count_excluded("KF-20");
         continue;
      }
      let base = format!("C08-s{}-{}", o.seed, i - 1);
      let mut m0 = meta(&base, "macros", Kind::Ascent, true);
      let twice = prog.rules.iter().any(|ru| ru.body.iter().filter(|b| matches!(b, vcore::ast::BodyItem::MacroCall { .. })).count() >= 2);
      let nested = prog.macros.iter().any(|m| m.body.iter().any(|b| matches!(b, vcore::ast::BodyItem::MacroCall { .. })));
      if twice {
         m0.labels.push("macro_invoked_twice_in_one_rule".into());
      }
      if nested {
         m0.labels.push("nested_macro".into());
      }
      if prog.macros.iter().any(|m| m.is_head) {
         m0.labels.push("head_macro".into());
      }
      let mut m1 = meta(&base, "hand_expanded", Kind::Ascent, false);
      m1.check_ast = true;
      out.push(GroupSpec {
         members: vec![
            MemberSpec { prog: prog.clone(), opts: PrintOpts::plain(Kind::Ascent), meta: m0 },
            MemberSpec { prog: expanded, opts: PrintOpts::plain(Kind::Ascent), meta: m1 },
         ],
      });
   }
   out
}

/// C09: packaging variants of one program
fn plan_c09(o: &Opts) -> Vec<GroupSpec> {
   use vcore::rng::Src;
   let n = n_programs(o, 48, 400);
   let mut out = vec![];
   let mut i = 0u64;
   while out.len() < n {
      let mut r = rng_for("C09", o.seed, i);
      i += 1;
      if i % 6 == 0 {
         // a program around a BYODS relation whose provider is given program-wide (`#![ds(P)]`), in every position
         // relative to the instrumentation flags; the other relations name the default provider explicitly
         let ds = *r.pick(&[vcore::ast::Ds::EqRel, vcore::ast::Ds::TrRel, vcore::ast::Ds::TrRelUf]);
         let ternary = r.chance(40);
         let prog = vcore::gen_ds::gen_byods(&mut r, &GenCfg::core(), ds, ternary);
         let path = match ds {
            vcore::ast::Ds::EqRel => "ds(::ascent_byods_rels::eqrel)",
            vcore::ast::Ds::TrRel => "ds(::ascent_byods_rels::trrel)",
            vcore::ast::Ds::TrRelUf => "ds(::ascent_byods_rels::trrel_uf)",
         };
         let base = format!("C09-s{}-{}", o.seed, i - 1);
         let mut members =
            vec![MemberSpec { prog: prog.clone(), opts: PrintOpts::plain(Kind::Ascent), meta: meta(&base, "ascent", Kind::Ascent, true) }];
         for (name, attrs) in [
            ("program_ds", vec![path]),
            ("program_ds_then_measure_rule_times", vec![path, "measure_rule_times"]),
            ("measure_rule_times_then_program_ds", vec!["measure_rule_times", path]),
            ("generate_run_timeout_then_program_ds", vec!["generate_run_timeout", path]),
         ] {
            let mut op = PrintOpts::plain(Kind::Ascent);
            op.program_ds = true;
            op.explicit_default_ds = true;
            op.attrs = attrs.iter().map(|a| a.to_string()).collect();
            if name == "program_ds_then_measure_rule_times" || name == "generate_run_timeout_then_program_ds" {
               // ... and part of the program comes from an include: the program-wide attributes stay in force
               let n_items = prog.rels.len() + prog.rules.len();
               let a = r.below(n_items + 1);
               let b = a + r.below(n_items - a + 1);
               op.include_cut = Some((a, b));
            }
            let mut m = meta(&base, name, Kind::Ascent, false);
            m.attrs = op.attrs.clone();
            m.labels = vec![format!("packaging:{name}")];
            members.push(MemberSpec { prog: prog.clone(), opts: op, meta: m });
         }
         out.push(GroupSpec { members });
         continue;
      }
      // every sixth base program has in-program macros: an include may separate a macro's definition from its invocations
      let with_macros = i % 6 == 3;
      let mut prog = if with_macros { vcore::gen_mac::gen_macros(&mut r, &GenCfg::core()) } else { gen::gen_any(&mut r, &GenCfg::core()) };
      if prog.rels.iter().any(|d| d.cols.is_empty()) {
         continue;
      }
      if with_macros {
         let expanded = vcore::xform::expand_macros(&prog);
         if prog.macros.is_empty() || gen::kf2_shape(&expanded) || gen::kf20_shape(&expanded) {
            continue;
         }
      }
      // an input relation that is read only under negation / aggregation (initialised relations that no positive clause
      // or head mentions must still be indexed)
      if !with_macros && r.chance(45) && !prog.rels.iter().any(|d| d.name == "gate" || d.name == "gated" || d.name == "gcount") {
         use vcore::ast::*;
         let src: Vec<RelDecl> = prog.rels.iter().filter(|d| !d.is_lattice && d.ds.is_none() && matches!(d.cols[0], Ty::I32 | Ty::U32 | Ty::Str)).cloned().collect();
         if !src.is_empty() {
            let s0 = r.pick(&src).clone();
            let ty = s0.cols[0];
            prog.rels.push(RelDecl { name: "gate".into(), cols: vec![ty], is_lattice: false, ds: None, is_input: true });
            prog.rels.push(RelDecl { name: "gated".into(), cols: vec![ty], is_lattice: false, ds: None, is_input: false });
            let mut args = vec![Arg::Var("gx".into())];
            args.extend((1..s0.cols.len()).map(|_| Arg::Wild));
            prog.rules.push(Rule {
               heads: vec![HeadItem::Clause { rel: "gated".into(), args: vec![Expr::Var("gx".into())] }],
               body: vec![BodyItem::Clause { rel: s0.name.clone(), args, conds: vec![] }, BodyItem::Neg { rel: "gate".into(), args: vec![Arg::Var("gx".into())] }],
            });
            if r.chance(50) {
               prog.rels.push(RelDecl { name: "gcount".into(), cols: vec![Ty::I32], is_lattice: false, ds: None, is_input: false });
               prog.rules.push(Rule {
                  heads: vec![HeadItem::Clause { rel: "gcount".into(), args: vec![Expr::Cast(Box::new(Expr::Var("gn".into())), Ty::I32)] }],
                  body: vec![BodyItem::Agg { pat: Pat::Var("gn".into()), agg: Aggregator::Count, bound: vec![], rel: "gate".into(), args: vec![Arg::Wild] }],
               });
            }
         }
      }
      let prog = prog;
      let base = format!("C09-s{}-{}", o.seed, i - 1);
      let par_ok = gen::par_rejects(&prog).is_none();
      let n_items = prog.rels.len() + prog.macros.len() + prog.rules.len();
      let plain_inputs: Vec<String> = prog.rels.iter().filter(|d| d.is_input && !d.is_lattice && d.ds.is_none()).map(|d| d.name.clone()).collect();
      let positively_used: std::collections::BTreeSet<String> = {
         fn walk(items: &[vcore::ast::BodyItem], out: &mut std::collections::BTreeSet<String>) {
            for it in items {
               match it {
                  vcore::ast::BodyItem::Clause { rel, .. } => {
                     out.insert(rel.clone());
                  },
                  vcore::ast::BodyItem::Disj(ds) => ds.iter().for_each(|d| walk(d, out)),
                  _ => {},
               }
            }
         }
         let mut s = std::collections::BTreeSet::new();
         for ru in &prog.rules {
            walk(&ru.body, &mut s);
            for (h, _) in ru.head_clauses() {
               s.insert(h.clone());
            }
         }
         s
      };
      let neg_only_inputs: Vec<String> = plain_inputs.iter().filter(|n| !positively_used.contains(*n)).cloned().collect();
      let mut members =
         vec![MemberSpec { prog: prog.clone(), opts: PrintOpts::plain(Kind::Ascent), meta: meta(&base, "ascent", Kind::Ascent, true) }];
      let mut add = |name: &str, opts: PrintOpts| {
         let mut m = meta(&base, name, opts.kind, false);
         m.attrs = opts.attrs.clone();
         m.labels = vec![format!("packaging:{name}")];
         members.push(MemberSpec { prog: prog.clone(), opts, meta: m });
      };
      if !neg_only_inputs.is_empty() && prog.macros.is_empty() {
         // only relations that no positive clause or head mentions are initialised
         for (name, kind) in [("ascent_run_init_unmentioned", Kind::AscentRun), ("initialised_unmentioned", Kind::Ascent)] {
            let mut op = PrintOpts::plain(kind);
            op.init_rels = neg_only_inputs.clone();
            add(name, op);
         }
         if par_ok {
            let mut op = PrintOpts::plain(Kind::AscentRunPar);
            op.init_rels = neg_only_inputs.clone();
            add("ascent_run_par_init_unmentioned", op);
         }
      }
      if with_macros {
         // includes cut between the declarations, the macro definitions and the rules
         for (name, kind) in [("include_source_macros", Kind::Ascent), ("include_source_macros_run", Kind::AscentRun), ("include_source_macros_par", Kind::AscentPar)] {
            if kind == Kind::AscentPar && !par_ok {
               continue;
            }
            let lo = prog.rels.len();
            let a = lo + r.below(prog.macros.len() + 1);
            let b = a + r.below(n_items - a + 1);
            let (a, b) = if r.chance(50) { (a, b) } else { (r.below(a + 1), a) };
            let mut op = PrintOpts::plain(kind);
            op.include_cut = Some((a, b));
            add(name, op);
         }
      }
      // a seeded choice of 5-6 packagings per base
      let mut kinds: Vec<usize> = (0..16).collect();
      r.shuffle(&mut kinds);
      for &k in kinds.iter().take(8) {
         match k {
            0 => add("ascent_run", PrintOpts::plain(Kind::AscentRun)),
            1 if par_ok => add("ascent_run_par", PrintOpts::plain(Kind::AscentRunPar)),
            2 if !plain_inputs.is_empty() => {
               let mut op = PrintOpts::plain(Kind::AscentRun);
               op.init_rels = plain_inputs.iter().filter(|_| r.chance(60)).cloned().collect();
               if !op.init_rels.is_empty() {
                  op.redeclare = op.init_rels.iter().filter(|_| r.chance(50)).cloned().collect();
                  add("ascent_run_init", op);
               }
            },
            3 => {
               let a = r.below(n_items + 1);
               let b = a + r.below(n_items - a + 1);
               let mut op = PrintOpts::plain(Kind::Ascent);
               op.include_cut = Some((a, b));
               add("include_source", op);
            },
            4 if par_ok => {
               let a = r.below(n_items + 1);
               let b = a + r.below(n_items - a + 1);
               let mut op = PrintOpts::plain(Kind::AscentPar);
               op.include_cut = Some((a, b));
               add("include_source_par", op);
            },
            5 => {
               let a = r.below(n_items + 1);
               let b = a + r.below(n_items - a + 1);
               let mut op = PrintOpts::plain(Kind::AscentRun);
               op.include_cut = Some((a, b));
               add("include_source_run", op);
            },
            6 if !plain_inputs.is_empty() => {
               let mut op = PrintOpts::plain(Kind::Ascent);
               op.init_rels = plain_inputs.iter().filter(|_| r.chance(60)).cloned().collect();
               if !op.init_rels.is_empty() {
                  op.redeclare = op.init_rels.iter().filter(|_| r.chance(50)).cloned().collect();
                  add("initialised_relations", op);
               }
            },
            7 if par_ok && !plain_inputs.is_empty() => {
               let mut op = PrintOpts::plain(Kind::AscentPar);
               op.init_rels = plain_inputs.iter().filter(|_| r.chance(60)).cloned().collect();
               if !op.init_rels.is_empty() {
                  add("initialised_relations_par", op);
               }
            },
            11 | 12 | 13 if !plain_inputs.is_empty() => {
               // an earlier declaration with an initialiser, the final one without (alone, under ascent_run, across an include)
               let mut op = PrintOpts::plain(if k == 12 { Kind::AscentRun } else { Kind::Ascent });
               op.redeclare_noinit = plain_inputs.iter().filter(|_| r.chance(60)).cloned().collect();
               if k == 13 {
                  let a = r.below(n_items + 1);
                  let b = a + r.below(n_items - a + 1);
                  op.include_cut = Some((a, b));
               }
               if r.chance(40) {
                  op.init_rels = plain_inputs.iter().filter(|n| !op.redeclare_noinit.contains(n) && r.chance(50)).cloned().collect();
               }
               if !op.redeclare_noinit.is_empty() {
                  add(["redeclared_without_initialiser", "redeclared_without_initialiser_run", "redeclared_without_initialiser_include"][k - 11], op);
               }
            },
            8 => {
               let mut op = PrintOpts::plain(Kind::Ascent);
               op.attrs = vec!["measure_rule_times".into()];
               add("measure_rule_times", op);
            },
            9 => {
               let mut op = PrintOpts::plain(if par_ok && r.chance(40) { Kind::AscentPar } else { Kind::Ascent });
               op.attrs = vec!["generate_run_timeout".into()];
               add("generate_run_timeout", op);
            },
            10 if par_ok => {
               let mut op = PrintOpts::plain(Kind::AscentPar);
               op.attrs = vec!["measure_rule_times".into(), "inter_rule_parallelism".into()];
               add("measure_rule_times_par", op);
            },
            14 => {
               // a struct signature with a type parameter and a where clause
               let mut op = PrintOpts::plain(Kind::Ascent);
               op.generic = true;
               if r.chance(30) {
                  let a = r.below(n_items + 1);
                  let b = a + r.below(n_items - a + 1);
                  op.include_cut = Some((a, b));
               }
               add("generic_signature", op);
            },
            15 if par_ok => {
               let mut op = PrintOpts::plain(Kind::AscentPar);
               op.generic = true;
               add("generic_signature_par", op);
            },
            _ => {},
         }
      }
      drop(add);
      out.push(GroupSpec { members });
   }
   out
}

/// C10-C12: programs around a BYODS-tagged relation; binary eqrel also under ascent_par!
fn plan_ds(o: &Opts, prop: &str, ds: vcore::ast::Ds) -> Vec<GroupSpec> {
   let n = n_programs(o, 90, 1000);
   (0..n as u64)
      .map(|i| {
         let mut r = rng_for(prop, o.seed, i);
         let ternary = i % 2 == 1;
         let cfg = GenCfg::core();
         if ds == vcore::ast::Ds::TrRelUf {
            if cfg.excluded("KF-13") {
               crate::count_excluded("KF-13 (recursive feeding not generated)");
            }
            if ternary && cfg.excluded("KF-14") {
               crate::count_excluded("KF-14 (key-free reads not generated)");
            }
         }
         // every third program has a single-pattern profile; the profiles (arity x access pattern) are enumerated
         let (nb, nt) = (vcore::gen_ds::N_PATS_BINARY, vcore::gen_ds::N_PATS_TERNARY);
         let profile = if i % 3 == 2 { Some(((i / 3) as usize + o.seed as usize * 7) % (nb + nt)) } else { None };
         let (ternary, prog) = match profile {
            Some(j) => {
               let t = j >= nb;
               (t, vcore::gen_ds::gen_byods_profile(&mut r, &cfg, ds, t, Some(if t { j - nb } else { j })))
            },
            None => (ternary, vcore::gen_ds::gen_byods(&mut r, &cfg, ds, ternary)),
         };
         let base = format!("{prop}-s{}-{}", o.seed, i);
         let mut m = meta(&base, "ser", Kind::Ascent, true);
         m.labels = vec![format!("arity={}", if ternary { 3 } else { 2 })];
         if let Some(j) = profile {
            m.labels.push(format!("single_pattern_profile={}", j));
         }
         // every third program: another attribute in front of the relation's `#[ds(..)]`
         let mut opts0 = PrintOpts::plain(Kind::Ascent);
         opts0.doc_before_ds = i % 3 == 1;
         // every fifth program also names the default provider program-wide: the relation's own attribute must win
         if i % 5 == 3 {
            opts0.attrs.push("ds(::ascent::rel)".into());
         }
         let mut members = vec![MemberSpec { prog: prog.clone(), opts: opts0, meta: m }];
         if ds == vcore::ast::Ds::EqRel && !ternary && i % 4 == 0 {
            if let Some(kf) = gen::par_rejects(&prog) {
               crate::count_excluded(kf);
               return GroupSpec { members };
            }
            members.push(MemberSpec { prog: prog.clone(), opts: PrintOpts::plain(Kind::AscentPar), meta: meta(&base, "par", Kind::AscentPar, false) });
         }
         GroupSpec { members }
      })
      .collect()
}
