//! Which programs / variants are generated for which property and tier.

use vcore::gen::{self, GenCfg};
use vcore::print::{Kind, PrintOpts};

use crate::{meta, rng_for, GroupSpec, MemberSpec, Opts};

fn n_programs(o: &Opts, quick: usize, thorough: usize) -> usize {
   o.programs.unwrap_or(if o.tier == "quick" { quick } else { thorough })
}

pub fn plan(o: &Opts) -> Vec<GroupSpec> {
   match o.prop.as_str() {
      "C01" => plan_c01(o),
      other => panic!("no plan for property {other}"),
   }
}

fn plan_c01(o: &Opts) -> Vec<GroupSpec> {
   let n = n_programs(o, 160, 960);
   let cfg = GenCfg::core();
   (0..n)
      .map(|i| {
         let mut r = rng_for("C01", o.seed, i as u64);
         let prog = gen::gen_core(&mut r, &cfg);
         let base = format!("C01-s{}-{}", o.seed, i);
         GroupSpec {
            members: vec![MemberSpec { prog, opts: PrintOpts::plain(Kind::Ascent), meta: meta(&base, "ser", Kind::Ascent, true) }],
         }
      })
      .collect()
}
