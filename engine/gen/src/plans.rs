//! Which programs / variants are generated for which property and tier.

use vcore::gen::{self, GenCfg};
use vcore::print::{Kind, PrintOpts};

use crate::{meta, rng_for, GroupSpec, MemberSpec, Opts};

fn n_programs(o: &Opts, quick: usize, thorough: usize) -> usize {
   o.programs.unwrap_or(if o.tier == "quick" { quick } else { thorough })
}

pub fn plan(o: &Opts) -> Vec<GroupSpec> {
   match o.prop.as_str() {
      "C01" => plan_c01(o),
      "C04" => plan_simple(o, "C04", 120, 1500, |r| { let l = vcore::rng::Src::chance(r, 30); gen::gen_strat(r, &GenCfg::core(), l) }),
      "C02" => plan_par(o, "C02", 72, 720, true, |r| gen::gen_any(r, &GenCfg::core())),
      "C05" => plan_par(o, "C05", 96, 960, false, |r| gen::gen_rederive(r, &GenCfg::core())),
      "C13" => plan_c13(o),
      "C14" => plan_c14(o),
      "C20" => plan_par(o, "C20", 30, 120, false, |r| gen::gen_any(r, &GenCfg::core())),
      "C03" => plan_simple(o, "C03", 120, 1500, |r| vcore::gen_lat::gen_lattice(r, &GenCfg::core())),
      other => panic!("no plan for property {other}"),
   }
}

fn plan_c01(o: &Opts) -> Vec<GroupSpec> {
   let n = n_programs(o, 160, 960);
   let cfg = GenCfg::core();
   (0..n)
      .map(|i| {
         let mut r = rng_for("C01", o.seed, i as u64);
         let prog = gen::gen_core(&mut r, &cfg);
         let base = format!("C01-s{}-{}", o.seed, i);
         GroupSpec {
            members: vec![MemberSpec { prog, opts: PrintOpts::plain(Kind::Ascent), meta: meta(&base, "ser", Kind::Ascent, true) }],
         }
      })
      .collect()
}

fn plan_simple(o: &Opts, prop: &str, quick: usize, thorough: usize, f: impl Fn(&mut crate::PtRng) -> vcore::ast::Program) -> Vec<GroupSpec> {
   let n = n_programs(o, quick, thorough);
   (0..n)
      .map(|i| {
         let mut r = rng_for(prop, o.seed, i as u64);
         let prog = f(&mut r);
         let base = format!("{prop}-s{}-{}", o.seed, i);
         GroupSpec {
            members: vec![MemberSpec { prog, opts: PrintOpts::plain(Kind::Ascent), meta: meta(&base, "ser", Kind::Ascent, true) }],
         }
      })
      .collect()
}

/// serial reference + parallel variants of the same program
fn plan_par(o: &Opts, prop: &str, quick: usize, thorough: usize, all_forms: bool, f: impl Fn(&mut crate::PtRng) -> vcore::ast::Program) -> Vec<GroupSpec> {
   let n = n_programs(o, quick, thorough);
   let mut out = vec![];
   let mut i = 0u64;
   while out.len() < n {
      let mut r = rng_for(prop, o.seed, i);
      i += 1;
      let prog = f(&mut r);
      if let Some(kf) = gen::par_rejects(&prog) {
         crate::count_excluded(kf);
         continue;
      }
      let base = format!("{prop}-s{}-{}", o.seed, i - 1);
      let mut members =
         vec![MemberSpec { prog: prog.clone(), opts: PrintOpts::plain(Kind::Ascent), meta: meta(&base, "ser", Kind::Ascent, true) }];
      members.push(MemberSpec { prog: prog.clone(), opts: PrintOpts::plain(Kind::AscentPar), meta: meta(&base, "par", Kind::AscentPar, false) });
      if all_forms {
         let mut opts = PrintOpts::plain(Kind::AscentPar);
         opts.attrs = vec!["inter_rule_parallelism".into()];
         let mut m = meta(&base, "par_inter_rule", Kind::AscentPar, false);
         m.attrs = opts.attrs.clone();
         members.push(MemberSpec { prog: prog.clone(), opts, meta: m });
         let no_nullary = prog.rels.iter().all(|d| !d.cols.is_empty());
         if i % 3 == 0 && no_nullary {
            members.push(MemberSpec {
               prog: prog.clone(),
               opts: PrintOpts::plain(Kind::AscentRunPar),
               meta: meta(&base, "run_par", Kind::AscentRunPar, false),
            });
         }
      }
      out.push(GroupSpec { members });
   }
   out
}

/// C13: every plain relation can be pushed into; serial and parallel forms
fn plan_c13(o: &Opts) -> Vec<GroupSpec> {
   let n = n_programs(o, 100, 800);
   let mut out = vec![];
   let mut i = 0u64;
   while out.len() < n {
      let mut r = rng_for("C13", o.seed, i);
      i += 1;
      // half of the programs are kept free of lattice observers so that lattice programs get monotone re-runs too
      let mut cfg = GenCfg::core();
      cfg.lat_observers = i % 2 == 0;
      let mut prog = gen::gen_any(&mut r, &cfg);
      for d in prog.rels.iter_mut() {
         if !d.is_lattice && d.ds.is_none() {
            d.is_input = true;
         }
      }
      let base = format!("C13-s{}-{}", o.seed, i - 1);
      let mut members =
         vec![MemberSpec { prog: prog.clone(), opts: PrintOpts::plain(Kind::Ascent), meta: meta(&base, "ser", Kind::Ascent, true) }];
      if gen::par_rejects(&prog).is_none() && i % 2 == 0 {
         members.push(MemberSpec { prog: prog.clone(), opts: PrintOpts::plain(Kind::AscentPar), meta: meta(&base, "par", Kind::AscentPar, false) });
      }
      out.push(GroupSpec { members });
   }
   out
}

/// C14: programs compiled with #![generate_run_timeout], serial and parallel
fn plan_c14(o: &Opts) -> Vec<GroupSpec> {
   let n = n_programs(o, 48, 400);
   let mut out = vec![];
   let mut i = 0u64;
   while out.len() < n {
      let mut r = rng_for("C14", o.seed, i);
      i += 1;
      let prog = gen::gen_any(&mut r, &GenCfg::core());
      let base = format!("C14-s{}-{}", o.seed, i - 1);
      let mk = |kind: Kind, variant: &str, is_ref: bool| {
         let mut opts = PrintOpts::plain(kind);
         opts.attrs = vec!["generate_run_timeout".into()];
         let mut m = meta(&base, variant, kind, is_ref);
         m.attrs = opts.attrs.clone();
         MemberSpec { prog: prog.clone(), opts, meta: m }
      };
      let mut members = vec![mk(Kind::Ascent, "ser", true)];
      if gen::par_rejects(&prog).is_none() && i % 2 == 0 {
         members.push(mk(Kind::AscentPar, "par", false));
      }
      out.push(GroupSpec { members });
   }
   out
}
