//! The batch driver: proptest-driven input search, oracle comparison, shrinking, replay, result reporting.

pub use vglue::{Db, Entry, Prog, Row, Val};

pub mod driver;
pub mod compare;
pub mod inputs;
pub mod pools;
pub mod history;
pub mod timeout;
pub mod concurrent;
