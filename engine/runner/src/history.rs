//! C13: histories of run() and pushes into relation fields, against the model "a fresh run on everything pushed so far".

use std::panic::AssertUnwindSafe;
use std::sync::atomic::{AtomicBool, AtomicU64, Ordering};
use std::sync::Mutex;
use std::collections::BTreeSet;

use proptest::prelude::*;
use proptest::test_runner::{Config, RngSeed, TestCaseError, TestError, TestRunner};
use vcore::ast::*;
use vcore::eval::{self, EvalError, EvalOpts};
use vcore::val::{Db, Row};

use crate::compare::compare;
use crate::driver::*;
use crate::{inputs, pools};

#[derive(Clone, Debug)]
pub struct RawHistory {
   pub init: inputs::RawDb,
   /// (kind, relation selector, cells)
   pub ops: Vec<(u8, u16, Vec<u16>)>,
}

#[derive(Clone, Debug, serde::Serialize, serde::Deserialize)]
pub enum Op {
   Run,
   Push(String, Row),
}

pub fn has_strat(items: &[BodyItem]) -> bool {
   items.iter().any(|it| match it {
      BodyItem::Agg { .. } | BodyItem::Neg { .. } => true,
      BodyItem::Disj(ds) => ds.iter().any(|d| has_strat(d)),
      _ => false,
   })
}

fn expr_vars(e: &Expr, out: &mut Vec<String>) {
   // conservative: every identifier mentioned anywhere in the expression
   let s = serde_json::to_value(e).unwrap();
   fn walk(v: &serde_json::Value, out: &mut Vec<String>) {
      match v {
         serde_json::Value::Object(m) =>
            for (k, x) in m {
               if k == "Var" {
                  if let Some(s) = x.as_str() {
                     out.push(s.to_string());
                  }
               }
               walk(x, out);
            },
         serde_json::Value::Array(a) => a.iter().for_each(|x| walk(x, out)),
         _ => {},
      }
   }
   walk(&s, out);
}

/// does a value read from a lattice column flow into the head of a plain relation ("observer" rule)?
fn observes_lattice(prog: &Program, rule: &Rule) -> bool {
   let mut lat_vars: Vec<String> = vec![];
   fn collect(prog: &Program, items: &[BodyItem], lat_vars: &mut Vec<String>) {
      for it in items {
         match it {
            BodyItem::Clause { rel, args, .. } if prog.rel(rel).is_lattice => {
               if let Some(last) = args.last() {
                  let s = serde_json::to_string(last).unwrap();
                  // all variable names inside the last argument (variable or pattern)
                  let v: serde_json::Value = serde_json::from_str(&s).unwrap();
                  fn names(v: &serde_json::Value, out: &mut Vec<String>) {
                     match v {
                        serde_json::Value::Object(m) =>
                           for (k, x) in m {
                              if k == "Var" {
                                 if let Some(s) = x.as_str() {
                                    out.push(s.to_string());
                                 }
                              }
                              names(x, out);
                           },
                        serde_json::Value::Array(a) => a.iter().for_each(|x| names(x, out)),
                        _ => {},
                     }
                  }
                  names(&v, lat_vars);
               }
            },
            BodyItem::Disj(ds) => ds.iter().for_each(|d| collect(prog, d, lat_vars)),
            _ => {},
         }
      }
   }
   collect(prog, &rule.body, &mut lat_vars);
   if lat_vars.is_empty() {
      return false;
   }
   for (h, args) in rule.head_clauses() {
      if prog.rel(h).is_lattice {
         continue;
      }
      let mut used = vec![];
      args.iter().for_each(|a| expr_vars(a, &mut used));
      if used.iter().any(|u| lat_vars.contains(u)) {
         return true;
      }
   }
   false
}

/// Programs for which "more input facts" can only add to the result: no negation / aggregation, and no rule that
/// copies a lattice value into a plain relation (such a copy of an older, smaller value legitimately stays behind
/// when a re-run improves the lattice value).
pub fn monotone_program(prog: &Program) -> bool {
   !prog.rules.iter().any(|r| has_strat(&r.body)) && !prog.rules.iter().any(|r| observes_lattice(prog, r))
}

pub fn strategy(prog: &Program) -> BoxedStrategy<RawHistory> {
   let init = inputs::strategy(prog);
   let op = (0u8..6, any::<u16>(), proptest::collection::vec(any::<u16>(), 4..=4));
   (init, proptest::collection::vec(op, 1..=7)).prop_map(|(init, ops)| RawHistory { init, ops }).boxed()
}

pub fn realize(raw: &RawHistory, prog: &Program) -> (Db, Vec<Op>) {
   let init = inputs::realize(&raw.init, prog);
   let d = inputs::DOMS[raw.init.dom_sel];
   let pushable: Vec<RelDecl> = inputs::input_rels(prog).into_iter().filter(|r| !r.is_lattice && !r.cols.is_empty()).collect();
   let mono = monotone_program(prog);
   let mut ops = vec![];
   for (kind, sel, cells) in &raw.ops {
      if *kind < 2 || !mono || pushable.is_empty() {
         ops.push(Op::Run);
      } else {
         let rel = &pushable[(*sel as usize * pushable.len()) >> 16];
         let row: Row = rel.cols.iter().zip(cells.iter()).map(|(ty, c)| inputs::val_of(*ty, *c, d)).collect();
         ops.push(Op::Push(rel.name.clone(), row));
      }
   }
   // every history ends with two runs in a row (idempotence)
   ops.push(Op::Run);
   ops.push(Op::Run);
   (init, ops)
}

pub struct HistOutcome {
   pub failures: Vec<Failure>,
   pub runs: u64,
   pub pushes_between_runs: u64,
   pub join_with_stored: bool,
   pub too_big: bool,
   pub ref_error: Option<String>,
   pub max_rounds: usize,
}

/// Applies the history to one compiled program; after every Run compares with the reference on the model.
fn apply(entry: &crate::Entry, meta: &Meta, ref_prog: &Program, init: &Db, ops: &[Op], out: &mut HistOutcome) -> Result<(), String> {
   let r = std::panic::catch_unwind(AssertUnwindSafe(|| -> Result<Vec<Failure>, String> {
      let mut p = (entry.new)();
      let mut model = init.clone();
      for (rel, rows) in &init.rels {
         p.load(rel, rows);
      }
      let mut current: Option<Db> = None;
      let mut runs = 0;
      let mut pushed_since_run = false;
      for (step, op) in ops.iter().enumerate() {
         match op {
            Op::Push(rel, row) => {
               // a caller does not push a tuple the relation already holds
               let present = match &current {
                  Some(db) => db.get(rel).contains(row),
                  None => false,
               } || model.get(rel).contains(row);
               if present {
                  continue;
               }
               p.load(rel, std::slice::from_ref(row));
               model.rels.entry(rel.clone()).or_default().push(row.clone());
               pushed_since_run = true;
            },
            Op::Run => {
               p.run();
               runs += 1;
               let _ = pushed_since_run;
               pushed_since_run = false;
               let db = p.dump();
               let expected = match eval::eval(ref_prog, &model, EvalOpts::default()) {
                  Ok(r) => r,
                  Err(EvalError::TooBig) => return Err("TOOBIG".into()),
                  Err(e) => return Err(format!("REF {e:?}")),
               };
               let mm = compare(ref_prog, &model, &expected.db, &db, true);
               if !mm.is_empty() {
                  return Ok(vec![Failure {
                     variant: format!("{}:after_run_{}_step_{}", meta.variant, runs, step),
                     entry: entry.name.to_string(),
                     pool: None,
                     perturb_seed: 0,
                     kind: "mismatch".into(),
                     mismatches: mm,
                     panic_msg: None,
                  }]);
               }
               current = Some(db);
            },
         }
      }
      Ok(vec![])
   }));
   match r {
      Ok(Ok(f)) => {
         out.failures.extend(f);
         Ok(())
      },
      Ok(Err(e)) => Err(e),
      Err(p) => {
         out.failures.push(Failure {
            variant: meta.variant.clone(),
            entry: entry.name.to_string(),
            pool: None,
            perturb_seed: 0,
            kind: "panic".into(),
            mismatches: vec![],
            panic_msg: Some(panic_message(p)),
         });
         Ok(())
      },
   }
}

pub fn run_history(group: &Group, init: &Db, ops: &[Op]) -> HistOutcome {
   set_current(vec![group.base.clone()], init, Some(serde_json::to_string(ops).unwrap_or_default()));
   let mut out = HistOutcome {
      failures: vec![],
      runs: 0,
      pushes_between_runs: 0,
      join_with_stored: false,
      too_big: false,
      ref_error: None,
      max_rounds: 0,
   };
   // classification on the model: is there a push after a run whose consequences need stored tuples?
   {
      let mut model = init.clone();
      let mut seen_run = false;
      let mut pending: Vec<(String, Row)> = vec![];
      for op in ops {
         match op {
            Op::Push(rel, row) => {
               if !model.get(rel).contains(row) {
                  model.rels.entry(rel.clone()).or_default().push(row.clone());
                  if seen_run {
                     pending.push((rel.clone(), row.clone()));
                  }
               }
            },
            Op::Run => {
               if !pending.is_empty() {
                  out.pushes_between_runs += pending.len() as u64;
                  // does the increment depend on tuples stored by earlier runs?
                  let mut only_new = Db::default();
                  for (r, row) in &pending {
                     only_new.rels.entry(r.clone()).or_default().push(row.clone());
                  }
                  let full = eval::eval(&group.ref_prog, &model, EvalOpts::default());
                  let mut before = model.clone();
                  for (r, row) in &pending {
                     if let Some(v) = before.rels.get_mut(r) {
                        if let Some(pos) = v.iter().position(|x| x == row) {
                           v.remove(pos);
                        }
                     }
                  }
                  let old = eval::eval(&group.ref_prog, &before, EvalOpts::default());
                  let alone = eval::eval(&group.ref_prog, &only_new, EvalOpts::default());
                  if let (Ok(full), Ok(old), Ok(alone)) = (full, old, alone) {
                     out.max_rounds = out.max_rounds.max(full.stats.sccs.iter().map(|s| s.productive_rounds).max().unwrap_or(0));
                     for (rel, rows) in &full.db.rels {
                        let o: BTreeSet<&Row> = old.db.get(rel).iter().collect();
                        let a: BTreeSet<&Row> = alone.db.get(rel).iter().collect();
                        if rows.iter().any(|r| !o.contains(r) && !a.contains(r)) {
                           out.join_with_stored = true;
                        }
                     }
                  }
                  pending.clear();
               }
               seen_run = true;
            },
         }
      }
   }
   // size pre-check on the reference, before any compiled program runs: the model after the last push is the largest one
   // (pushes are only generated for monotone programs); a case the bounded reference evaluator gives up on is skipped
   // and counted, instead of being left to run unbounded in the compiled program
   {
      let mut model = init.clone();
      for op in ops {
         if let Op::Push(rel, row) = op {
            if !model.get(rel).contains(row) {
               model.rels.entry(rel.clone()).or_default().push(row.clone());
            }
         }
      }
      if let Err(EvalError::TooBig) = eval::eval(&group.ref_prog, &model, EvalOpts::default()) {
         out.too_big = true;
         return out;
      }
   }
   for m in &group.members {
      let pools_: Vec<Option<usize>> = if m.meta.kind.is_par() { vec![Some(1), Some(4)] } else { vec![None] };
      for pool in pools_ {
         out.runs += 1;
         let res = match pool {
            None => apply(m.entry, &m.meta, &group.ref_prog, init, ops, &mut out),
            Some(n) => pools::pool(n).install(|| apply(m.entry, &m.meta, &group.ref_prog, init, ops, &mut out)),
         };
         tick_progress();
         match res {
            Err(e) if e == "TOOBIG" => {
               out.too_big = true;
               return out;
            },
            Err(e) => {
               out.ref_error = Some(e);
               return out;
            },
            Ok(()) => {},
         }
         if let Some(f) = out.failures.last_mut() {
            if f.pool.is_none() {
               f.pool = pool;
            }
         }
         if !out.failures.is_empty() {
            return out;
         }
      }
   }
   out
}

pub fn show_ops(ops: &[Op]) -> String {
   ops.iter()
      .map(|o| match o {
         Op::Run => "run()".to_string(),
         Op::Push(r, row) => format!("{r}.push{}", crate::compare::show_row(row)),
      })
      .collect::<Vec<_>>()
      .join("; ")
}

pub fn run_group_history(
   args: &Args, group: &Group, result: &Mutex<BatchResult>, nontrivial_set: &Mutex<BTreeSet<u64>>,
) {
   let text = group.members.iter().find(|m| m.meta.is_ref).map(|m| m.entry.text).unwrap_or("");
   if let Some(m) = group.members.iter().find(|m| m.meta.fixed_input.is_some()) {
      let input = m.meta.fixed_input.clone().unwrap();
      let ops: Vec<Op> = m.meta.fixed_ops.as_ref().map(|s| serde_json::from_str(s).expect("fixed_ops")).unwrap_or(vec![Op::Run, Op::Run]);
      let out = run_history(group, &input, &ops);
      let failed = !out.failures.is_empty();
      result.lock().unwrap().known.push(KnownOutcome {
         id: m.meta.finding_id.clone().unwrap_or_default(),
         failed,
         signature: if failed { Some(detail_signature(&args.prop, &out.failures)) } else { None },
         failures: out.failures,
      });
      return;
   }
   let strat = strategy(&group.ref_prog);
   let gseed = args.seed.wrapping_mul(0x9E37_79B9_7F4A_7C15) ^ hash64(&group.base);
   let mut runner = TestRunner::new(Config {
      cases: args.cases,
      max_shrink_iters: 300,
      failure_persistence: None,
      rng_seed: RngSeed::Fixed(gseed),
      ..Config::default()
   });
   let failed = AtomicBool::new(false);
   let case_no = AtomicU64::new(0);
   let mono = monotone_program(&group.ref_prog);
   let run = runner.run(&strat, |raw| {
      let (init, ops) = realize(&raw, &group.ref_prog);
      let cn = case_no.fetch_add(1, Ordering::Relaxed);
      let out = run_history(group, &init, &ops);
      if let Some(e) = out.ref_error {
         result.lock().unwrap().infra_errors.push(format!("reference error on {}: {e}", group.base));
         return Ok(());
      }
      if !failed.load(Ordering::Relaxed) {
         let mut r = result.lock().unwrap();
         if out.too_big {
            r.too_big += 1;
            return Ok(());
         }
         r.evaluations += 1;
         r.runs += out.runs;
         let n_runs = ops.iter().filter(|o| matches!(o, Op::Run)).count();
         *r.distribution.entry(format!("runs_in_history={}", n_runs.min(6))).or_insert(0) += 1;
         if out.pushes_between_runs > 0 {
            *r.distribution.entry("history_with_push_between_runs".into()).or_insert(0) += 1;
         }
         if out.join_with_stored {
            *r.distribution.entry("increment_needs_join_with_stored_tuples".into()).or_insert(0) += 1;
         }
         if !mono {
            *r.distribution.entry("idempotence_only(program_has_agg_or_negation)".into()).or_insert(0) += 1;
         }
         let nt = out.join_with_stored || (!mono && n_runs >= 2 && init.total_rows() >= 2);
         if nt {
            *r.distribution.entry("nontrivial_cases".into()).or_insert(0) += 1;
            nontrivial_set.lock().unwrap().insert(hash64(&format!("{}|{}|{}", text, show_db(&init), show_ops(&ops))));
            if r.samples.len() < 3 && (cn % 5 == 1 || r.samples.is_empty()) {
               r.samples.push(serde_json::json!({"program": text, "initial": show_db(&init), "history": show_ops(&ops),
                  "variants": group.members.iter().map(|m| m.meta.variant.clone()).collect::<Vec<_>>()}));
            }
         }
      }
      if out.failures.is_empty() {
         Ok(())
      } else {
         failed.store(true, Ordering::Relaxed);
         Err(TestCaseError::fail("history mismatch"))
      }
   });
   if let Err(TestError::Fail(_, raw)) = run {
      let (init, ops) = realize(&raw, &group.ref_prog);
      let out = run_history(group, &init, &ops);
      let mut failures = out.failures;
      let shrunk = !failures.is_empty();
      if failures.is_empty() {
         failures.push(Failure {
            variant: "?".into(),
            entry: "?".into(),
            pool: None,
            perturb_seed: 0,
            kind: "unreproduced".into(),
            mismatches: vec![],
            panic_msg: Some("failure did not reproduce on the shrunk history".into()),
         });
      }
      let rep = ViolationReport {
         property: args.prop.clone(),
         base: group.base.clone(),
         seed: args.seed,
         program_text: text.to_string(),
         ref_ast: serde_json::to_string(&group.ref_prog).unwrap(),
         input_text: format!("{}history: {}", show_db(&init), show_ops(&ops)),
         input: init,
         signature: signature(&args.prop, &failures),
         failures,
         shrunk,
         entries: group.members.iter().map(|m| m.entry.name.to_string()).collect(),
         members: members_json(group),
         ops: Some(serde_json::to_string(&ops).unwrap()),
      };
      result.lock().unwrap().violations.push(rep);
   }
}
