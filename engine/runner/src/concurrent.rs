//! C20: several program instances (same or different generated types, serial and parallel) constructed and run at
//! the same time on different threads, each with its own assignment of rayon pools to construction and to every run.

use std::collections::BTreeSet;
use std::panic::AssertUnwindSafe;
use std::sync::atomic::{AtomicBool, AtomicU64, Ordering};
use std::sync::{Arc, Barrier, Mutex};

use proptest::prelude::*;
use proptest::test_runner::{Config, RngSeed, TestCaseError, TestError, TestRunner};
use vcore::eval::{self, EvalOpts};
use vcore::val::{Db, Row};

use crate::compare::compare;
use crate::driver::*;
use crate::history::monotone_program;
use crate::{inputs, pools};

#[derive(Clone, Debug, serde::Serialize, serde::Deserialize, PartialEq, Eq)]
pub enum PoolSel {
   Global,
   Custom(usize),
   /// a custom pool entered from a worker of another custom pool
   Nested(usize, usize),
}

const MENU: [PoolSel; 9] = [
   PoolSel::Global,
   PoolSel::Custom(1),
   PoolSel::Custom(2),
   PoolSel::Custom(3),
   PoolSel::Custom(4),
   PoolSel::Custom(8),
   PoolSel::Nested(2, 4),
   PoolSel::Nested(8, 1),
   PoolSel::Custom(16),
];

pub fn in_pool<T: Send>(sel: &PoolSel, f: impl FnOnce() -> T + Send) -> T {
   match sel {
      PoolSel::Global => f(),
      PoolSel::Custom(n) => pools::pool(*n).install(f),
      PoolSel::Nested(a, b) => pools::pool(*a).install(|| pools::pool(*b).install(f)),
   }
}

pub fn pool_size(sel: &PoolSel) -> usize {
   match sel {
      PoolSel::Global => rayon::current_num_threads(),
      PoolSel::Custom(n) => *n,
      PoolSel::Nested(_, b) => *b,
   }
}

#[derive(Clone, Debug)]
pub struct RawInstance {
   pub group: u16,
   pub member: u16,
   pub pools: Vec<u8>,
   pub dom_sel: usize,
   pub rels: Vec<Vec<Vec<u16>>>,
   pub pushes: Vec<(u16, Vec<u16>)>,
   /// below 100: a later instance takes the generated type (group and member) of the first instance
   pub twin: u8,
}

#[derive(Clone, Debug, serde::Serialize, serde::Deserialize)]
pub struct Instance {
   /// indices into the groups of the running batch (re-resolved from `base` / `variant` on replay)
   #[serde(default)]
   pub group: usize,
   #[serde(default)]
   pub member: usize,
   pub base: String,
   pub variant: String,
   pub construct: PoolSel,
   pub run1: PoolSel,
   pub run2: PoolSel,
   pub input: Db,
   pub pushes: Vec<(String, Row)>,
}

fn raw_strategy() -> BoxedStrategy<Vec<RawInstance>> {
   let row = proptest::collection::vec(any::<u16>(), 4..=4);
   // mostly small relations; every fourth one larger (longer fixpoints, deltas that outgrow total)
   let rel = prop_oneof![3 => proptest::collection::vec(row.clone(), 0..=10), 1 => proptest::collection::vec(row.clone(), 11..=32)];
   let inst = (
      any::<u16>(),
      any::<u16>(),
      proptest::collection::vec(0u8..MENU.len() as u8, 3..=3),
      0usize..inputs::DOMS.len(),
      proptest::collection::vec(rel, 6..=6),
      proptest::collection::vec((any::<u16>(), row), 0..=3),
      any::<u8>(),
   )
      .prop_map(|(group, member, pools, dom_sel, rels, pushes, twin)| RawInstance { group, member, pools, dom_sel, rels, pushes, twin });
   proptest::collection::vec(inst, 2..=5).boxed()
}

pub struct ScenarioOutcome {
   pub failures: Vec<Failure>,
   pub ref_error: Option<String>,
   pub too_big: bool,
   pub differing_pool_sizes: bool,
   pub construct_run_differ: bool,
   pub any_par: bool,
}

/// One instance's whole history on the calling thread; returns the dumps after run 1 and run 2.
fn play(entry: &crate::Entry, inst: &Instance, barrier: Option<&Barrier>) -> Result<(Db, Db, Db), String> {
   // construction and loading happen before the common start; the barrier is reached even if they panic
   // programs with BYODS relations hold `Rc`s, so `dyn Prog` is not `Send`; the programs of this mode have plain
   // relations and lattices only (all `Send`), and an instance is only ever used by one thread at a time
   struct SendBox(Box<dyn crate::Prog>);
   unsafe impl Send for SendBox {}
   let built = std::panic::catch_unwind(AssertUnwindSafe(|| {
      let mut p = in_pool(&inst.construct, || SendBox((entry.new)())).0;
      for (rel, rows) in &inst.input.rels {
         p.load(rel, rows);
      }
      p
   }));
   if let Some(b) = barrier {
      b.wait();
   }
   let mut p = built.map_err(panic_message)?;
   std::panic::catch_unwind(AssertUnwindSafe(|| {
      let mut sp = SendBox(p);
      in_pool(&inst.run1, || {
         let sp = &mut sp;
         sp.0.run()
      });
      let mut p = sp.0;
      let d1 = p.dump();
      let mut model = inst.input.clone();
      for (rel, row) in &inst.pushes {
         if d1.get(rel).contains(row) || model.get(rel).contains(row) {
            continue;
         }
         p.load(rel, std::slice::from_ref(row));
         model.rels.entry(rel.clone()).or_default().push(row.clone());
      }
      let mut sp = SendBox(p);
      in_pool(&inst.run2, || {
         let sp = &mut sp;
         sp.0.run()
      });
      let p = sp.0;
      let d2 = p.dump();
      (d1, d2, model)
   }))
   .map_err(panic_message)
}

/// Entry point of the C20 mode: scenarios over all groups of the batch.
pub fn run_all(args: &Args, groups: &[Group], result: &Mutex<BatchResult>, nontrivial_set: &Mutex<BTreeSet<u64>>) {
   let all: Vec<&Group> = groups.iter().filter(|g| g.members.iter().all(|m| m.meta.fixed_input.is_none())).collect();
   let strat = raw_strategy();
   let first_pool = std::env::var("VERIF_FIRST_POOL").unwrap_or_else(|_| "default".into());
   let gseed = args.seed.wrapping_mul(0x9E37_79B9_7F4A_7C15) ^ hash64(&format!("C20-{first_pool}"));
   let mut runner = TestRunner::new(Config {
      cases: args.cases,
      max_shrink_iters: 150,
      failure_persistence: None,
      rng_seed: RngSeed::Fixed(gseed),
      ..Config::default()
   });
   let failed = AtomicBool::new(false);
   let case_no = AtomicU64::new(0);
   let run = runner.run(&strat, |raw| {
      let insts = realize_refs(&raw, &all);
      let cn = case_no.fetch_add(1, Ordering::Relaxed);
      let out = run_scenario_refs(&all, &insts);
      if let Some(e) = out.ref_error {
         result.lock().unwrap().infra_errors.push(format!("reference error in C20 scenario: {e}"));
         return Ok(());
      }
      if !failed.load(Ordering::Relaxed) {
         let mut r = result.lock().unwrap();
         if out.too_big {
            r.too_big += 1;
            return Ok(());
         }
         r.evaluations += 1;
         r.runs += 2 * insts.len() as u64;
         *r.distribution.entry(format!("instances={}", insts.len())).or_insert(0) += 1;
         *r.distribution.entry(format!("first_use_pool={first_pool}")).or_insert(0) += 1;
         let mut seen_types = BTreeSet::new();
         if insts.iter().any(|i| !seen_types.insert((i.group, i.member))) {
            *r.distribution.entry("several_instances_of_one_generated_type".into()).or_insert(0) += 1;
            if insts.iter().any(|i| i.variant == "par_inter_rule" && insts.iter().filter(|j| (j.group, j.member) == (i.group, i.member)).count() > 1) {
               *r.distribution.entry("several_instances_of_one_inter_rule_parallelism_type".into()).or_insert(0) += 1;
            }
         }
         if out.differing_pool_sizes {
            *r.distribution.entry("overlapping_instances_with_different_pool_sizes".into()).or_insert(0) += 1;
         }
         if out.construct_run_differ {
            *r.distribution.entry("parallel_instance_construct_and_run_pools_differ".into()).or_insert(0) += 1;
         }
         let nt = out.any_par && (out.differing_pool_sizes || out.construct_run_differ);
         if nt {
            *r.distribution.entry("nontrivial_cases".into()).or_insert(0) += 1;
            nontrivial_set.lock().unwrap().insert(hash64(&format!("{first_pool}|{}", show_scenario_refs(&all, &insts))));
            if r.samples.len() < 3 && (cn % 5 == 2 || r.samples.is_empty()) {
               r.samples.push(serde_json::json!({"scenario": show_scenario_refs(&all, &insts), "first_use_pool": first_pool}));
            }
         }
      }
      if out.failures.is_empty() {
         Ok(())
      } else {
         failed.store(true, Ordering::Relaxed);
         Err(TestCaseError::fail("scenario mismatch"))
      }
   });
   if let Err(TestError::Fail(_, raw)) = run {
      let insts = realize_refs(&raw, &all);
      let mut failures = vec![];
      for _ in 0..10 {
         let out = run_scenario_refs(&all, &insts);
         if !out.failures.is_empty() {
            failures = out.failures;
            break;
         }
      }
      let shrunk = !failures.is_empty();
      if failures.is_empty() {
         failures.push(Failure {
            variant: "?".into(),
            entry: "?".into(),
            pool: None,
            perturb_seed: 0,
            kind: "unreproduced".into(),
            mismatches: vec![],
            panic_msg: Some("scenario failure did not reproduce (schedule dependent)".into()),
         });
      }
      // report on the first failing instance's group
      let g = all[insts[0].group];
      let text: String = insts
         .iter()
         .map(|i| all[i.group].members[i.member].entry.text.to_string())
         .collect::<BTreeSet<_>>()
         .into_iter()
         .collect::<Vec<_>>()
         .join("\n");
      let rep = ViolationReport {
         property: args.prop.clone(),
         base: g.base.clone(),
         seed: args.seed,
         program_text: text,
         ref_ast: String::new(),
         input_text: format!("first_use_pool={first_pool}\n{}", show_scenario_refs(&all, &insts)),
         input: Db::default(),
         signature: signature(&args.prop, &failures),
         failures,
         shrunk,
         entries: vec![],
         members: {
            let mut seen = BTreeSet::new();
            insts.iter().filter(|i| seen.insert(i.base.clone())).flat_map(|i| members_json(all[i.group])).collect()
         },
         ops: Some(serde_json::to_string(&insts).unwrap()),
      };
      result.lock().unwrap().violations.push(rep);
   }
}

pub fn realize_refs(raw: &[RawInstance], groups: &[&Group]) -> Vec<Instance> {
   let tmp: Vec<GroupView> = groups.iter().map(|g| GroupView(g)).collect();
   realize_views(raw, &tmp)
}

struct GroupView<'a, 'b>(&'a Group<'b>);

fn realize_views(raw: &[RawInstance], groups: &[GroupView]) -> Vec<Instance> {
   raw.iter()
      .enumerate()
      .map(|(idx, ri)| {
         // several values of one generated type at the same time: about 40 % of the later instances are twins of the first
         let (rg, rm) = if idx > 0 && ri.twin < 100 { (raw[0].group, raw[0].member) } else { (ri.group, ri.member) };
         let gi = (rg as usize * groups.len()) >> 16;
         let g = groups[gi].0;
         let mi = (rm as usize * g.members.len()) >> 16;
         let d = inputs::DOMS[ri.dom_sel];
         let ins = inputs::input_rels(&g.ref_prog);
         let dedup = inputs::wants_set_inputs(&g.ref_prog);
         let mut input = Db::default();
         for (rel, rows) in ins.iter().zip(ri.rels.iter()) {
            let mut out: Vec<Row> = vec![];
            let mut keys = BTreeSet::new();
            for r in rows {
               let row: Row = rel.cols.iter().zip(r.iter()).map(|(ty, c)| inputs::val_of(*ty, *c, d)).collect();
               if rel.is_lattice && !keys.insert(row[..row.len() - 1].to_vec()) {
                  continue;
               }
               if dedup && out.contains(&row) {
                  continue;
               }
               out.push(row);
            }
            input.rels.insert(rel.name.clone(), out);
         }
         let pushable: Vec<_> = ins.iter().filter(|r| !r.is_lattice && !r.cols.is_empty()).collect();
         let mut pushes = vec![];
         if monotone_program(&g.ref_prog) && !pushable.is_empty() {
            for (sel, cells) in &ri.pushes {
               let rel = pushable[(*sel as usize * pushable.len()) >> 16];
               let row: Row = rel.cols.iter().zip(cells.iter()).map(|(ty, c)| inputs::val_of(*ty, *c, d)).collect();
               pushes.push((rel.name.clone(), row));
            }
         }
         Instance {
            group: gi,
            member: mi,
            base: g.base.clone(),
            variant: g.members[mi].meta.variant.clone(),
            construct: MENU[ri.pools[0] as usize].clone(),
            run1: MENU[ri.pools[1] as usize].clone(),
            run2: MENU[ri.pools[2] as usize].clone(),
            input,
            pushes,
         }
      })
      .collect()
}

pub fn run_scenario_refs(groups: &[&Group], insts: &[Instance]) -> ScenarioOutcome {
   // run_scenario over references: build a parallel vector of (ref_prog, members) accessors
   run_scenario_impl(&|i| groups[i], insts)
}

fn show_scenario_refs(groups: &[&Group], insts: &[Instance]) -> String {
   insts
      .iter()
      .enumerate()
      .map(|(i, inst)| {
         let m = &groups[inst.group].members[inst.member];
         format!(
            "instance{} = {} ({}) construct@{:?}; load {} rows; run@{:?}; push {:?}; run@{:?}",
            i,
            m.entry.name,
            m.meta.variant,
            inst.construct,
            inst.input.total_rows(),
            inst.run1,
            inst.pushes.iter().map(|(r, row)| format!("{r}{}", crate::compare::show_row(row))).collect::<Vec<_>>(),
            inst.run2
         )
      })
      .collect::<Vec<_>>()
      .join("\n")
}

fn run_scenario_impl<'a, 'b: 'a>(get: &dyn Fn(usize) -> &'a Group<'b>, insts: &[Instance]) -> ScenarioOutcome {
   let mut out = ScenarioOutcome {
      failures: vec![],
      ref_error: None,
      too_big: false,
      differing_pool_sizes: false,
      construct_run_differ: false,
      any_par: false,
   };
   let mut expected: Vec<Db> = vec![];
   for inst in insts {
      let g = get(inst.group);
      match eval::eval(&g.ref_prog, &inst.input, EvalOpts::default()) {
         Ok(r) => expected.push(r.db),
         Err(eval::EvalError::TooBig) => {
            out.too_big = true;
            return out;
         },
         Err(e) => {
            out.ref_error = Some(format!("{e:?}"));
            return out;
         },
      }
   }
   let sizes: BTreeSet<usize> = insts.iter().flat_map(|i| [pool_size(&i.run1), pool_size(&i.run2)]).collect();
   out.differing_pool_sizes = sizes.len() >= 2;
   for inst in insts {
      let m = &get(inst.group).members[inst.member];
      if m.meta.kind.is_par() {
         out.any_par = true;
         if pool_size(&inst.construct) != pool_size(&inst.run1) || pool_size(&inst.run1) != pool_size(&inst.run2) {
            out.construct_run_differ = true;
         }
      }
   }
   {
      let mut bases: Vec<String> = insts.iter().map(|i| i.base.clone()).collect();
      bases.dedup();
      set_current(bases, &Db::default(), Some(serde_json::to_string(insts).unwrap_or_default()));
   }
   let barrier = Arc::new(Barrier::new(insts.len()));
   let entries: Vec<&crate::Entry> = insts.iter().map(|i| get(i.group).members[i.member].entry).collect();
   let results: Vec<Result<(Db, Db, Db), String>> = std::thread::scope(|s| {
      let handles: Vec<_> = insts
         .iter()
         .zip(entries.iter())
         .map(|(inst, entry)| {
            let b = barrier.clone();
            let entry: &crate::Entry = entry;
            s.spawn(move || play(entry, inst, Some(&b)))
         })
         .collect();
      handles.into_iter().map(|h| h.join().unwrap_or_else(|_| Err("thread panicked outside catch_unwind".into()))).collect()
   });
   tick_progress();
   for (i, (inst, res)) in insts.iter().zip(results.into_iter()).enumerate() {
      let g = get(inst.group);
      let m = &g.members[inst.member];
      let mk = |kind: &str, what: String, mm, panic| Failure {
         variant: format!("{}:instance{}:{}", m.meta.variant, i, what),
         entry: m.entry.name.to_string(),
         pool: None,
         perturb_seed: 0,
         kind: kind.into(),
         mismatches: mm,
         panic_msg: panic,
      };
      match res {
         Err(msg) => {
            out.failures.push(mk("panic", format!("construct@{:?} run@{:?} run@{:?}", inst.construct, inst.run1, inst.run2), vec![], Some(msg)));
            return out;
         },
         Ok((d1, d2, model)) => {
            let mm = compare(&g.ref_prog, &inst.input, &expected[i], &d1, true);
            if !mm.is_empty() {
               out.failures.push(mk("mismatch", format!("after run 1: construct@{:?} run@{:?}", inst.construct, inst.run1), mm, None));
               return out;
            }
            let e2 = match eval::eval(&g.ref_prog, &model, EvalOpts::default()) {
               Ok(r) => r.db,
               Err(_) => continue,
            };
            let mm = compare(&g.ref_prog, &model, &e2, &d2, true);
            if !mm.is_empty() {
               out.failures.push(mk(
                  "mismatch",
                  format!("after run 2: construct@{:?} run@{:?} run@{:?} pushes={}", inst.construct, inst.run1, inst.run2, inst.pushes.len()),
                  mm,
                  None,
               ));
               return out;
            }
         },
      }
   }
   out
}

/// Replays a saved scenario (instances are re-resolved by base / variant), 20 times because it is schedule dependent.
pub fn replay(args: &Args, groups: &[Group], ops: &str) -> i32 {
   let mut insts: Vec<Instance> = match serde_json::from_str(ops) {
      Ok(i) => i,
      Err(e) => {
         eprintln!("bad scenario in replay file: {e}");
         return 2;
      },
   };
   let all: Vec<&Group> = groups.iter().collect();
   for i in insts.iter_mut() {
      let Some(gi) = all.iter().position(|g| g.base == i.base) else {
         eprintln!("replay: base {} not in this batch", i.base);
         return 2;
      };
      let Some(mi) = all[gi].members.iter().position(|m| m.meta.variant == i.variant) else {
         eprintln!("replay: variant {} of {} not in this batch", i.variant, i.base);
         return 2;
      };
      i.group = gi;
      i.member = mi;
   }
   let mut fails = 0;
   let mut first = None;
   for _ in 0..20 {
      let out = run_scenario_refs(&all, &insts);
      if !out.failures.is_empty() {
         fails += 1;
         if first.is_none() {
            first = Some(out.failures);
         }
      }
   }
   let j = serde_json::json!({"replayed": 20, "failed": fails, "failures": first,
      "signature": first.as_ref().map(|f| detail_signature(&args.prop, f))});
   std::fs::write(&args.out, serde_json::to_string_pretty(&j).unwrap()).ok();
   if fails > 0 { 1 } else { 0 }
}
