//! C14: every point at which run_timeout can observe its deadline is a crash point (deadline-check counter hook).

use std::collections::{BTreeMap, BTreeSet};
use std::panic::AssertUnwindSafe;
use std::sync::atomic::{AtomicBool, AtomicU64, Ordering};
use std::sync::Mutex;
use std::time::Duration;

use proptest::test_runner::{Config, RngSeed, TestCaseError, TestError, TestRunner};
use vcore::ast::Program;
use vcore::eval::{self, EvalError, EvalOpts};
use vcore::val::{self, Db, Row};

use crate::compare::{compare, show_row, Mismatch, MismatchKind};
use crate::driver::*;
use crate::{inputs, pools};

const LONG: Duration = Duration::from_secs(3600);

/// soundness of a partial state: nothing outside the fixed point, lattice values below the final ones
fn partial_sound(prog: &Program, expected: &Db, actual: &Db) -> Vec<Mismatch> {
   let mut out = vec![];
   for decl in vcore::print::field_rels(prog) {
      let rel = &decl.name;
      let a_rows = actual.get(rel);
      if decl.is_lattice {
         let ty = *decl.cols.last().unwrap();
         let fin: BTreeMap<&[val::Val], &val::Val> = expected.get(rel).iter().map(|r| (&r[..r.len() - 1], r.last().unwrap())).collect();
         let bad: Vec<Row> = a_rows
            .iter()
            .filter(|r| match fin.get(&r[..r.len() - 1]) {
               None => true,
               Some(f) => !val::leq(ty, r.last().unwrap(), f),
            })
            .cloned()
            .collect();
         if !bad.is_empty() {
            out.push(Mismatch { rel: rel.clone(), kind: MismatchKind::Extra, count: bad.len(), rows: bad.iter().take(6).map(show_row).collect() });
         }
      } else {
         let e: BTreeSet<&Row> = expected.get(rel).iter().collect();
         let bad: Vec<Row> = a_rows.iter().filter(|r| !e.contains(r)).cloned().collect();
         if !bad.is_empty() {
            out.push(Mismatch { rel: rel.clone(), kind: MismatchKind::Extra, count: bad.len(), rows: bad.iter().take(6).map(show_row).collect() });
         }
      }
   }
   out
}

pub struct TimeoutOutcome {
   pub failures: Vec<Failure>,
   pub checks: u64,
   pub interrupted_runs: u64,
   pub nontrivial_points: u64,
   pub too_big: bool,
   pub ref_error: Option<String>,
}

fn fail(meta: &Meta, entry: &crate::Entry, what: String, mm: Vec<Mismatch>, panic: Option<String>) -> Failure {
   Failure {
      variant: format!("{}:{}", meta.variant, what),
      entry: entry.name.to_string(),
      pool: None,
      perturb_seed: 0,
      kind: if panic.is_some() { "panic".into() } else { "mismatch".into() },
      mismatches: mm,
      panic_msg: panic,
   }
}

/// Runs all crash points (and some repeated-interruption sequences) of one member. `seqs`: extra sequences of
/// armed check numbers to apply before the final unarmed run.
fn member_points(
   m: &Member, ref_prog: &Program, input: &Db, expected: &Db, seqs: &[Vec<u64>], out: &mut TimeoutOutcome,
) {
   let new_loaded = || {
      let mut p = (m.entry.new)();
      for (rel, rows) in &input.rels {
         p.load(rel, rows);
      }
      p
   };
   let r = std::panic::catch_unwind(AssertUnwindSafe(|| -> Vec<Failure> {
      // counting run
      let mut p = new_loaded();
      vglue::hooks::deadline_arm(0);
      let done = p.run_timeout(LONG).expect("program was compiled without generate_run_timeout");
      let total = vglue::hooks::deadline_count();
      if !done {
         return vec![fail(&m.meta, m.entry, "unarmed run_timeout returned false".into(), vec![], None)];
      }
      let mm = compare(ref_prog, input, expected, &p.dump(), true);
      if !mm.is_empty() {
         return vec![fail(&m.meta, m.entry, "full run_timeout".into(), mm, None)];
      }
      out.checks += total;
      let input_rows = input.total_rows();
      let full_rows = expected.total_rows();
      // every single crash point, then the extra sequences
      let mut plans: Vec<Vec<u64>> = (1..=total).map(|k| vec![k]).collect();
      plans.extend(seqs.iter().cloned());
      for plan in plans {
         let mut p = new_loaded();
         let mut finished = false;
         for (j, &k) in plan.iter().enumerate() {
            if finished {
               break;
            }
            vglue::hooks::deadline_arm(k);
            let ret = p.run_timeout(LONG).unwrap();
            out.interrupted_runs += 1;
            tick_progress();
            let dump = p.dump();
            if ret {
               finished = true;
               let mm = compare(ref_prog, input, expected, &dump, true);
               if !mm.is_empty() {
                  return vec![fail(&m.meta, m.entry, format!("returned true after plan {:?} step {}", plan, j), mm, None)];
               }
            } else {
               let mm = partial_sound(ref_prog, expected, &dump);
               if !mm.is_empty() {
                  return vec![fail(&m.meta, m.entry, format!("unsound partial state, plan {:?} step {}", plan, j), mm, None)];
               }
               let rows = dump.total_rows();
               if rows > input_rows && rows < full_rows {
                  out.nontrivial_points += 1;
               }
            }
         }
         // resume without a deadline
         vglue::hooks::deadline_arm(0);
         if plan.len() % 2 == 0 {
            p.run();
         } else {
            let ret = p.run_timeout(LONG).unwrap();
            if !ret {
               return vec![fail(&m.meta, m.entry, format!("resuming run_timeout returned false, plan {:?}", plan), vec![], None)];
            }
         }
         let mm = compare(ref_prog, input, expected, &p.dump(), true);
         if !mm.is_empty() {
            return vec![fail(&m.meta, m.entry, format!("after resume, plan {:?}", plan), mm, None)];
         }
      }
      vec![]
   }));
   vglue::hooks::deadline_arm(0);
   match r {
      Ok(f) => out.failures.extend(f),
      Err(p) => out.failures.push(fail(&m.meta, m.entry, "panic".into(), vec![], Some(panic_message(p)))),
   }
}

pub fn run_timeout_case(group: &Group, input: &Db, seq_seed: u64) -> TimeoutOutcome {
   set_current(vec![group.base.clone()], input, None);
   let mut out = TimeoutOutcome { failures: vec![], checks: 0, interrupted_runs: 0, nontrivial_points: 0, too_big: false, ref_error: None };
   let expected = match eval::eval(&group.ref_prog, input, EvalOpts::default()) {
      Ok(r) => r,
      Err(EvalError::TooBig) => {
         out.too_big = true;
         return out;
      },
      Err(e) => {
         out.ref_error = Some(format!("{e:?}"));
         return out;
      },
   };
   // repeated interruptions: a few sequences derived from the seed (k values small so they usually fire)
   let mut s = vcore::rng::SplitMix(seq_seed);
   use vcore::rng::Src;
   let seqs: Vec<Vec<u64>> = (0..4).map(|_| (0..s.range(2, 4)).map(|_| s.range(1, 3) as u64).collect()).collect();
   for m in &group.members {
      let pools_: Vec<Option<usize>> = if m.meta.kind.is_par() { vec![Some(1), Some(4)] } else { vec![None] };
      for pool in pools_ {
         match pool {
            None => member_points(m, &group.ref_prog, input, &expected.db, &seqs, &mut out),
            Some(n) => pools::pool(n).install(|| member_points(m, &group.ref_prog, input, &expected.db, &seqs, &mut out)),
         }
         if let Some(f) = out.failures.last_mut() {
            f.pool = pool;
         }
         if !out.failures.is_empty() {
            return out;
         }
      }
   }
   out
}

pub fn run_group_timeout(args: &Args, group: &Group, result: &Mutex<BatchResult>, nontrivial_set: &Mutex<BTreeSet<u64>>) {
   let text = group.members.iter().find(|m| m.meta.is_ref).map(|m| m.entry.text).unwrap_or("");
   let gseed = args.seed.wrapping_mul(0x9E37_79B9_7F4A_7C15) ^ hash64(&group.base);
   if let Some(m) = group.members.iter().find(|m| m.meta.fixed_input.is_some()) {
      let input = m.meta.fixed_input.clone().unwrap();
      let out = run_timeout_case(group, &input, gseed);
      let failed = !out.failures.is_empty();
      result.lock().unwrap().known.push(KnownOutcome {
         id: m.meta.finding_id.clone().unwrap_or_default(),
         failed,
         signature: if failed { Some(detail_signature(&args.prop, &out.failures)) } else { None },
         failures: out.failures,
      });
      return;
   }
   let strat = inputs::strategy(&group.ref_prog);
   let mut runner = TestRunner::new(Config {
      cases: args.cases,
      max_shrink_iters: 200,
      failure_persistence: None,
      rng_seed: RngSeed::Fixed(gseed),
      ..Config::default()
   });
   let failed = AtomicBool::new(false);
   let case_no = AtomicU64::new(0);
   let run = runner.run(&strat, |raw| {
      let input = inputs::realize(&raw, &group.ref_prog);
      let cn = case_no.fetch_add(1, Ordering::Relaxed);
      let out = run_timeout_case(group, &input, gseed ^ cn);
      if let Some(e) = out.ref_error {
         result.lock().unwrap().infra_errors.push(format!("reference error on {}: {e}", group.base));
         return Ok(());
      }
      if !failed.load(Ordering::Relaxed) {
         let mut r = result.lock().unwrap();
         if out.too_big {
            r.too_big += 1;
            return Ok(());
         }
         // an evaluation = one interrupted run at one crash point
         r.evaluations += out.interrupted_runs;
         r.runs += out.interrupted_runs;
         *r.distribution.entry("cases(program x input)".into()).or_insert(0) += 1;
         *r.distribution.entry("deadline_checks_total".into()).or_insert(0) += out.checks;
         *r.distribution.entry("nontrivial_crash_points".into()).or_insert(0) += out.nontrivial_points;
         if out.nontrivial_points > 0 {
            let mut set = nontrivial_set.lock().unwrap();
            for k in 0..out.nontrivial_points {
               set.insert(hash64(&format!("{}|{}|{}", text, show_db(&input), k)));
            }
            if r.samples.len() < 3 && (cn % 3 == 1 || r.samples.is_empty()) {
               r.samples.push(serde_json::json!({"program": text, "input": show_db(&input), "deadline_checks_in_full_run": out.checks,
                  "crash_points_with_partial_derived_state": out.nontrivial_points,
                  "variants": group.members.iter().map(|m| m.meta.variant.clone()).collect::<Vec<_>>()}));
            }
         }
      }
      if out.failures.is_empty() {
         Ok(())
      } else {
         failed.store(true, Ordering::Relaxed);
         Err(TestCaseError::fail("timeout mismatch"))
      }
   });
   if let Err(TestError::Fail(_, raw)) = run {
      let input = inputs::realize(&raw, &group.ref_prog);
      let out = run_timeout_case(group, &input, gseed);
      let mut failures = out.failures;
      let shrunk = !failures.is_empty();
      if failures.is_empty() {
         failures.push(Failure {
            variant: "?".into(),
            entry: "?".into(),
            pool: None,
            perturb_seed: 0,
            kind: "unreproduced".into(),
            mismatches: vec![],
            panic_msg: Some("failure did not reproduce on the shrunk input".into()),
         });
      }
      let rep = ViolationReport {
         property: args.prop.clone(),
         base: group.base.clone(),
         seed: args.seed,
         program_text: text.to_string(),
         ref_ast: serde_json::to_string(&group.ref_prog).unwrap(),
         input_text: show_db(&input),
         input,
         signature: signature(&args.prop, &failures),
         failures,
         shrunk,
         entries: group.members.iter().map(|m| m.entry.name.to_string()).collect(),
         members: members_json(group),
         ops: None,
      };
      result.lock().unwrap().violations.push(rep);
   }
}
