//! Explicit rayon pools of fixed sizes, built once per process.

use std::collections::BTreeMap;
use std::sync::{Mutex, OnceLock};

static POOLS: OnceLock<Mutex<BTreeMap<usize, &'static rayon::ThreadPool>>> = OnceLock::new();

pub fn pool(n: usize) -> &'static rayon::ThreadPool {
   let m = POOLS.get_or_init(|| Mutex::new(BTreeMap::new()));
   let mut g = m.lock().unwrap();
   *g.entry(n).or_insert_with(|| {
      Box::leak(Box::new(rayon::ThreadPoolBuilder::new().num_threads(n).build().expect("pool")))
   })
}
