//! Oracle comparison between the reference result and what a compiled program holds after evaluation.

use std::collections::{BTreeMap, BTreeSet};

use serde::Serialize;
use vcore::ast::Program;
use vcore::val::{Db, Row};

#[derive(Clone, Debug, Serialize, PartialEq, Eq, PartialOrd, Ord)]
pub enum MismatchKind {
   /// a tuple of the reference model is absent
   Missing,
   /// a tuple that is not in the reference model is present
   Extra,
   /// a tuple occurs more often than the caller put it in (set property, C05)
   Duplicate,
   /// an input tuple occurs less often than the caller put it in
   LostInput,
   /// a lattice key has more than one row
   LatticeDupKey,
}

#[derive(Clone, Debug, Serialize)]
pub struct Mismatch {
   pub rel: String,
   pub kind: MismatchKind,
   pub count: usize,
   pub rows: Vec<String>,
}

pub fn show_row(r: &Row) -> String { format!("({})", r.iter().map(vcore::val::show).collect::<Vec<_>>().join(", ")) }

fn mk(rel: &str, kind: MismatchKind, rows: Vec<Row>) -> Mismatch {
   Mismatch { rel: rel.to_string(), kind, count: rows.len(), rows: rows.iter().take(6).map(show_row).collect() }
}

/// `expected`: reference result (sets). `actual`: dumped rows. Relation names are base names.
pub fn compare(prog: &Program, input: &Db, expected: &Db, actual: &Db, check_rows: bool) -> Vec<Mismatch> {
   let mut out = vec![];
   for decl in vcore::print::field_rels(prog) {
      let rel = &decl.name;
      if !actual.rels.contains_key(rel) {
         continue;
      }
      let a_rows = actual.get(rel);
      let a_set: BTreeSet<&Row> = a_rows.iter().collect();
      let e_set: BTreeSet<&Row> = expected.get(rel).iter().collect();
      let missing: Vec<Row> = e_set.difference(&a_set).map(|r| (*r).clone()).collect();
      let extra: Vec<Row> = a_set.difference(&e_set).map(|r| (*r).clone()).collect();
      if !missing.is_empty() {
         out.push(mk(rel, MismatchKind::Missing, missing));
      }
      if !extra.is_empty() {
         out.push(mk(rel, MismatchKind::Extra, extra));
      }
      if !check_rows {
         continue;
      }
      if decl.is_lattice {
         let mut by_key: BTreeMap<&[vcore::val::Val], usize> = BTreeMap::new();
         for r in a_rows {
            *by_key.entry(&r[..r.len() - 1]).or_insert(0) += 1;
         }
         let dups: Vec<Row> = by_key.iter().filter(|(_, c)| **c > 1).map(|(k, _)| k.to_vec()).collect();
         if !dups.is_empty() {
            out.push(mk(rel, MismatchKind::LatticeDupKey, dups));
         }
      } else {
         let mut a_cnt: BTreeMap<&Row, usize> = BTreeMap::new();
         for r in a_rows {
            *a_cnt.entry(r).or_insert(0) += 1;
         }
         let mut i_cnt: BTreeMap<&Row, usize> = BTreeMap::new();
         for r in input.get(rel) {
            *i_cnt.entry(r).or_insert(0) += 1;
         }
         let mut dup = vec![];
         let mut lost = vec![];
         for (r, &c) in &a_cnt {
            let want = i_cnt.get(r).copied().unwrap_or(0).max(1);
            if c > want {
               dup.push((*r).clone());
            } else if c < want {
               lost.push((*r).clone());
            }
         }
         for (r, _) in &i_cnt {
            if !a_cnt.contains_key(r) {
               lost.push((*r).clone());
            }
         }
         if !dup.is_empty() {
            out.push(mk(rel, MismatchKind::Duplicate, dup));
         }
         if !lost.is_empty() {
            out.push(mk(rel, MismatchKind::LostInput, lost));
         }
      }
   }
   out
}
