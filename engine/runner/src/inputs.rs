//! Input databases: proptest strategies over raw cells, mapped monotonically into small typed domains.

use std::collections::{BTreeMap, BTreeSet};

use proptest::prelude::*;
use vcore::ast::*;
use vcore::val::{Db, Row, Val, BSET_BOUND};

#[derive(Clone, Debug)]
pub struct RawDb {
   pub dom_sel: usize,
   pub rels: Vec<Vec<Vec<u16>>>,
}

pub const DOMS: [i64; 5] = [3, 5, 8, 16, 60];

pub fn input_rels(prog: &Program) -> Vec<RelDecl> {
   let mut seen = BTreeSet::new();
   let mut out = vec![];
   for r in prog.rels.iter().rev() {
      if seen.insert(r.name.clone()) && r.is_input && r.ds.is_none() {
         out.push(r.clone());
      }
   }
   out.reverse();
   out
}

fn count_clauses(items: &[BodyItem], rel: &str) -> (usize, bool) {
   // (number of relation-reading items in the rule, whether `rel` is among them)
   let mut n = 0;
   let mut uses = false;
   for it in items {
      match it {
         BodyItem::Clause { rel: r, .. } | BodyItem::Agg { rel: r, .. } | BodyItem::Neg { rel: r, .. } => {
            n += 1;
            if r == rel {
               uses = true;
            }
         },
         BodyItem::Disj(ds) => {
            let mut best = 0;
            for d in ds {
               let (k, u) = count_clauses(d, rel);
               best = best.max(k);
               uses |= u;
            }
            n += best;
         },
         BodyItem::For { .. } => n += 1,
         BodyItem::MacroCall { .. } => n += 2,
         BodyItem::Cond(_) => {},
      }
   }
   (n, uses)
}

/// Row caps per input relation so that the naive reference evaluator stays fast (bounds cost, not shapes).
pub fn caps(prog: &Program) -> BTreeMap<String, usize> {
   let mut out = BTreeMap::new();
   let recursive = !prog.rules.is_empty();
   for r in input_rels(prog) {
      let mut cap = 150usize;
      for rule in &prog.rules {
         let (n, uses) = count_clauses(&rule.body, &r.name);
         let any_macro = rule.body.iter().any(|b| matches!(b, BodyItem::MacroCall { .. }));
         if uses || any_macro {
            cap = cap.min(match n {
               0 | 1 => 150,
               2 => 60,
               3 => 16,
               _ => 8,
            });
         }
      }
      if recursive && r.cols.len() >= 3 {
         cap = cap.min(40);
      }
      out.insert(r.name.clone(), cap);
   }
   out
}

pub fn strategy(prog: &Program) -> BoxedStrategy<RawDb> {
   let caps = caps(prog);
   let rel_strats: Vec<BoxedStrategy<Vec<Vec<u16>>>> = input_rels(prog)
      .iter()
      .map(|rel| {
         let arity = rel.cols.len();
         let cap = caps[&rel.name].max(2);
         let row = proptest::collection::vec(any::<u16>(), arity..=arity);
         let mid_hi = cap.min(25).max(7);
         prop_oneof![
            2 => proptest::collection::vec(row.clone(), 0..=0),
            2 => proptest::collection::vec(row.clone(), 1..=1),
            8 => proptest::collection::vec(row.clone(), 2..=6.min(cap)),
            4 => proptest::collection::vec(row.clone(), 7.min(cap)..=mid_hi.min(cap)),
            1 => proptest::collection::vec(row, mid_hi.min(cap)..=cap),
         ]
         .boxed()
      })
      .collect();
   (0usize..DOMS.len(), rel_strats).prop_map(|(dom_sel, rels)| RawDb { dom_sel, rels }).boxed()
}

fn idx(raw: u16, n: i64) -> i64 { ((raw as u64 * n as u64) >> 16) as i64 }

pub fn val_of(ty: Ty, raw: u16, d: i64) -> Val {
   match ty {
      Ty::I32 | Ty::U32 | Ty::Usize => Val::I(idx(raw, d)),
      Ty::U8 => Val::I(idx(raw, d.min(6))),
      Ty::F64 => Val::F((idx(raw, d) as f64).to_bits()),
      Ty::Str => Val::S(format!("s{}", idx(raw, d))),
      Ty::Bool => Val::B(idx(raw, 2) == 1),
      Ty::OptI32 | Ty::OptU32 => match idx(raw, d + 1) {
         0 => Val::None_,
         i => Val::some(Val::I(i - 1)),
      },
      Ty::PairI32 | Ty::PairU32 => {
         let i = idx(raw, 9);
         Val::Tup(vec![Val::I(i / 3), Val::I(i % 3)])
      },
      Ty::DualU32 => Val::dual(Val::I(idx(raw, d))),
      Ty::DualSetU8 => {
         let m = idx(raw, 16);
         Val::dual(Val::set_of((0..4).filter(|b| m & (1 << b) != 0).map(Val::I)))
      },
      Ty::PairDualU32 => {
         let i = idx(raw, 12);
         Val::Tup(vec![Val::dual(Val::I(i / 3)), Val::I(i % 3)])
      },
      Ty::SetU8 => {
         let m = idx(raw, 16);
         Val::set_of((0..4).filter(|b| m & (1 << b) != 0).map(Val::I))
      },
      Ty::BSetU8 => {
         let m = idx(raw, 17);
         if m == 16 {
            Val::BTop
         } else {
            let items: Vec<Val> = (0..4).filter(|b| m & (1 << b) != 0).map(Val::I).collect();
            if items.len() > BSET_BOUND { Val::BTop } else { Val::set_of(items) }
         }
      },
      Ty::CPropU8 => match idx(raw, 6) {
         0 => Val::CBot,
         5 => Val::CTop,
         i => Val::CConst(Box::new(Val::I(i - 1))),
      },
      Ty::ProdU32DualU32 => {
         let i = idx(raw, d * d);
         Val::Prod(Box::new(Val::I(i / d)), Box::new(Val::I(i % d)))
      },
   }
}

fn has_agg(items: &[BodyItem]) -> bool {
   items.iter().any(|it| match it {
      BodyItem::Agg { agg, .. } => !matches!(agg, Aggregator::Not),
      BodyItem::Disj(ds) => ds.iter().any(|d| has_agg(d)),
      _ => false,
   })
}

/// Programs with aggregates get duplicate-free input vectors: a caller that pushes the same tuple twice makes a
/// multiplicity-sensitive aggregate count it twice, which is not claimed to be a defect (the input is then not a set).
pub fn wants_set_inputs(prog: &Program) -> bool {
   prog.rules.iter().any(|r| has_agg(&r.body)) || prog.macros.iter().any(|m| has_agg(&m.body))
}

pub fn realize(raw: &RawDb, prog: &Program) -> Db {
   let d = DOMS[raw.dom_sel];
   let dedup = wants_set_inputs(prog);
   let mut db = Db::default();
   for (rel, rows) in input_rels(prog).iter().zip(raw.rels.iter()) {
      let mut out: Vec<Row> = vec![];
      let mut keys = BTreeSet::new();
      for r in rows {
         let row: Row = rel.cols.iter().zip(r.iter()).map(|(ty, raw)| val_of(*ty, *raw, d)).collect();
         if rel.is_lattice {
            // a caller keeps one row per key in a lattice relation
            let key = row[..row.len() - 1].to_vec();
            if !keys.insert(key) {
               continue;
            }
         }
         if dedup && out.contains(&row) {
            continue;
         }
         out.push(row);
      }
      db.rels.insert(rel.name.clone(), out);
   }
   db
}
