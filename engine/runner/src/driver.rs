//! Batch driver: runs every compiled program of a batch against generated inputs, compares with the
//! reference evaluator, shrinks failures and writes a result file that the check driver merges into evidence.

use std::collections::{BTreeMap, BTreeSet};
use std::panic::AssertUnwindSafe;
use std::sync::atomic::{AtomicBool, AtomicU64, AtomicUsize, Ordering};
use std::sync::Mutex;
use std::time::{Duration, Instant};

use proptest::test_runner::{Config, RngSeed, TestCaseError, TestError, TestRunner};
use serde::{Deserialize, Serialize};
use vcore::ast::Program;
use vcore::eval::{self, EvalError, EvalOpts, EvalStats};
use vcore::print::Kind;
use vcore::val::Db;

use crate::compare::{compare, Mismatch};
use crate::{inputs, pools, Entry};

pub use vcore::meta::Meta;

#[derive(Clone, Debug)]
pub struct Args {
   pub prop: String,
   pub tier: String,
   pub seed: u64,
   pub cases: u32,
   pub out: String,
   pub threads: usize,
   pub replay: Option<String>,
   pub only: Option<String>,
   pub members_of: Option<String>,
}

pub fn parse_args() -> Args {
   let mut a = Args {
      prop: "C01".into(),
      tier: "quick".into(),
      seed: 1,
      cases: 20,
      out: "result.json".into(),
      threads: 16,
      replay: None,
      only: None,
      members_of: None,
   };
   let argv: Vec<String> = std::env::args().collect();
   let mut i = 1;
   while i < argv.len() {
      let v = argv.get(i + 1).cloned().unwrap_or_default();
      match argv[i].as_str() {
         "--prop" => a.prop = v,
         "--tier" => a.tier = v,
         "--seed" => a.seed = v.parse().expect("seed"),
         "--cases" => a.cases = v.parse().expect("cases"),
         "--out" => a.out = v,
         "--threads" => a.threads = v.parse().expect("threads"),
         "--replay" => a.replay = Some(v),
         "--only" => a.only = Some(v),
         "--members-of" => a.members_of = Some(v),
         other => panic!("unknown argument {other}"),
      }
      i += 2;
   }
   a
}

pub struct Member<'a> {
   pub entry: &'a Entry,
   pub meta: Meta,
   pub prog: Program,
}

pub struct Group<'a> {
   pub base: String,
   pub ref_prog: Program,
   pub members: Vec<Member<'a>>,
}

#[derive(Clone, Debug, Serialize)]
pub struct Failure {
   pub variant: String,
   pub entry: String,
   pub pool: Option<usize>,
   pub perturb_seed: u64,
   /// "mismatch" | "panic" | "selfcheck"
   pub kind: String,
   pub mismatches: Vec<Mismatch>,
   pub panic_msg: Option<String>,
}

#[derive(Clone, Debug, Serialize)]
pub struct ViolationReport {
   pub property: String,
   pub base: String,
   pub seed: u64,
   pub program_text: String,
   pub ref_ast: String,
   pub input: Db,
   pub input_text: String,
   pub failures: Vec<Failure>,
   pub signature: String,
   pub shrunk: bool,
   pub entries: Vec<String>,
   /// everything needed to rebuild the programs of this case without the generator
   pub members: Vec<serde_json::Value>,
   /// history / schedule of the case where the property has one (JSON)
   pub ops: Option<String>,
}

#[derive(Serialize, Clone, Debug)]
pub struct KnownOutcome {
   pub id: String,
   pub failed: bool,
   pub signature: Option<String>,
   pub failures: Vec<Failure>,
}

pub fn members_json(group: &Group) -> Vec<serde_json::Value> {
   group
      .members
      .iter()
      .map(|m| {
         serde_json::json!({
            "ast": serde_json::from_str::<serde_json::Value>(m.entry.ast).unwrap(),
            "opts": serde_json::from_str::<serde_json::Value>(m.entry.opts).unwrap(),
            "meta": serde_json::to_value(&m.meta).unwrap(),
         })
      })
      .collect()
}

#[derive(Default, Serialize, Clone, Debug)]
pub struct BatchResult {
   pub known: Vec<KnownOutcome>,
   pub programs: usize,
   pub groups: usize,
   pub evaluations: u64,
   pub runs: u64,
   pub nontrivial: u64,
   pub too_big: u64,
   pub distribution: BTreeMap<String, u64>,
   pub samples: Vec<serde_json::Value>,
   pub violations: Vec<ViolationReport>,
   pub infra_errors: Vec<String>,
   pub wall_s: f64,
}

/// How parallel variants are exercised.
#[derive(Clone, Debug)]
pub struct ParPlan {
   pub pools: Vec<usize>,
   pub reps: usize,
   pub perturb: bool,
}

pub fn par_plan(prop: &str, tier: &str) -> ParPlan {
   match (prop, tier) {
      ("C02", "quick") | ("C05", "quick") => ParPlan { pools: vec![1, 2, 3, 4, 8, 16], reps: 2, perturb: true },
      ("C02", _) | ("C05", _) => ParPlan { pools: vec![1, 2, 3, 4, 8, 16], reps: 6, perturb: true },
      ("C10", _) => ParPlan { pools: vec![1, 2, 4, 8], reps: 2, perturb: true },
      ("C06", _) => ParPlan { pools: vec![2, 4, 16], reps: 1, perturb: false },
      ("C04", _) => ParPlan { pools: vec![1, 4], reps: 1, perturb: false },
      ("C03", _) => ParPlan { pools: vec![2, 8], reps: 2, perturb: true },
      _ => ParPlan { pools: vec![4], reps: 1, perturb: false },
   }
}

static PROGRESS: AtomicU64 = AtomicU64::new(0);

fn tick() { PROGRESS.fetch_add(1, Ordering::Relaxed); }
pub fn tick_progress() { tick() }

/// What is running right now (bases of the programs, input, history / scenario), for the deadlock report.
pub static CURRENT: Mutex<Option<(Vec<String>, String, Option<String>)>> = Mutex::new(None);
static OUT_PATH: Mutex<Option<String>> = Mutex::new(None);

pub fn set_current(bases: Vec<String>, input: &Db, ops: Option<String>) {
   *CURRENT.lock().unwrap() = Some((bases, serde_json::to_string(input).unwrap_or_default(), ops));
}

/// user + system CPU time of this process in clock ticks
fn cpu_ticks() -> Option<u64> {
   let s = std::fs::read_to_string("/proc/self/stat").ok()?;
   // the command name (field 2) may contain spaces: fields are counted after the closing parenthesis
   let rest = &s[s.rfind(')')? + 2..];
   let f: Vec<&str> = rest.split_whitespace().collect();
   Some(f.get(11)?.parse::<u64>().ok()? + f.get(12)?.parse::<u64>().ok()?)
}

/// No progress for `limit`: inconclusive (exit 2). No progress for 25 s while the whole process consumes no CPU time
/// over two consecutive 5 s windows: every thread is blocked, which in a process without I/O is a deadlock of the
/// code under test (exit 3; the current case is written next to the result file).
fn start_watchdog(limit: Duration) {
   std::thread::spawn(move || {
      let mut last = PROGRESS.load(Ordering::Relaxed);
      let mut since = Instant::now();
      let mut idle_windows = 0;
      let mut window_start = Instant::now();
      let mut window_ticks = cpu_ticks();
      let mut ticks_at_progress = cpu_ticks();
      loop {
         std::thread::sleep(Duration::from_millis(500));
         let now = PROGRESS.load(Ordering::Relaxed);
         if now != last {
            last = now;
            since = Instant::now();
            ticks_at_progress = cpu_ticks();
            idle_windows = 0;
            window_start = Instant::now();
            window_ticks = cpu_ticks();
            continue;
         }
         if window_start.elapsed() >= Duration::from_secs(5) {
            let t = cpu_ticks();
            match (window_ticks, t) {
               (Some(a), Some(b)) if b.saturating_sub(a) <= 1 => idle_windows += 1,
               _ => idle_windows = 0,
            }
            window_start = Instant::now();
            window_ticks = t;
         }
         if since.elapsed() > Duration::from_secs(25) && idle_windows >= 2 {
            let cur = CURRENT.lock().map(|c| c.clone()).unwrap_or(None);
            let j = serde_json::json!({
               "no_progress_s": since.elapsed().as_secs(),
               "idle_cpu_windows_of_5s": idle_windows,
               "bases": cur.as_ref().map(|c| c.0.clone()),
               "input": cur.as_ref().map(|c| c.1.clone()),
               "ops": cur.as_ref().and_then(|c| c.2.clone()),
            });
            if let Some(out) = OUT_PATH.lock().unwrap().clone() {
               std::fs::write(format!("{out}.deadlock.json"), serde_json::to_string_pretty(&j).unwrap()).ok();
            }
            eprintln!("WATCHDOG: no progress for {:?} and no CPU time consumed by any thread: deadlock", since.elapsed());
            println!("DEADLOCK");
            std::process::exit(3);
         }
         if since.elapsed() > limit {
            let cur = CURRENT.lock().map(|c| c.clone()).unwrap_or(None);
            let j = serde_json::json!({
               "no_progress_s": since.elapsed().as_secs(),
               "bases": cur.as_ref().map(|c| c.0.clone()),
               "input": cur.as_ref().map(|c| c.1.clone()),
               "ops": cur.as_ref().and_then(|c| c.2.clone()),
            });
            // CPU time consumed since the last progress (clock ticks of 10 ms). Every case reaches the compiled programs
            // only after the bounded reference evaluator has finished it (at most 3 * 10^6 naive steps, 6 * 10^4 rows),
            // which compiled code does in well under a second: 150 s of CPU on one case is not slowness of the machine
            // (CPU time does not grow while the process waits for a core) but a run() that does not terminate
            let cpu_s = match (ticks_at_progress, cpu_ticks()) {
               (Some(a), Some(b)) => b.saturating_sub(a) / 100,
               _ => 0,
            };
            if cpu_s >= 150 {
               let mut j = j.clone();
               j["cpu_seconds_since_progress"] = serde_json::json!(cpu_s);
               if let Some(out) = OUT_PATH.lock().unwrap().clone() {
                  std::fs::write(format!("{out}.divergence.json"), serde_json::to_string_pretty(&j).unwrap()).ok();
               }
               eprintln!("WATCHDOG: current case: {:?}", cur.as_ref().map(|c| c.0.clone()));
               eprintln!("WATCHDOG: no progress for {:?} while the process consumed {cpu_s} s of CPU: run() does not terminate", limit);
               println!("DIVERGENCE");
               std::process::exit(4);
            }
            if let Some(out) = OUT_PATH.lock().unwrap().clone() {
               std::fs::write(format!("{out}.runaway.json"), serde_json::to_string_pretty(&j).unwrap()).ok();
            }
            eprintln!("WATCHDOG: current case: {:?}", cur.as_ref().map(|c| c.0.clone()));
            eprintln!("WATCHDOG: no progress for {:?}: possible runaway case (inconclusive)", limit);
            println!("INCONCLUSIVE watchdog");
            std::process::exit(2);
         }
      }
   });
}

pub fn panic_message(p: Box<dyn std::any::Any + Send>) -> String {
   if let Some(s) = p.downcast_ref::<&str>() {
      s.to_string()
   } else if let Some(s) = p.downcast_ref::<String>() {
      s.clone()
   } else {
      "<non-string panic payload>".into()
   }
}

fn map_val(v: &vcore::val::Val, scheme: &str, forward: bool) -> vcore::val::Val {
   use vcore::val::Val;
   match (v, scheme, forward) {
      (Val::I(c), "big", true) => Val::I(c * 1000 + 7),
      (Val::I(c), "big", false) => Val::I((c - 7) / 1000),
      (Val::I(c), "str", true) => Val::S(format!("k{c}")),
      (Val::S(s), "str", false) => Val::I(s[1..].parse().expect("renamed constant")),
      (Val::Some_(x), _, _) => Val::some(map_val(x, scheme, forward)),
      (Val::Tup(xs), _, _) => Val::Tup(xs.iter().map(|x| map_val(x, scheme, forward)).collect()),
      (other, _, _) => other.clone(),
   }
}

fn map_db_to_variant(db: &Db, meta: &Meta) -> Db {
   let inv: BTreeMap<&String, &String> = meta.rel_map.iter().map(|(v, b)| (b, v)).collect();
   let mut out = Db::default();
   for (k, v) in &db.rels {
      let mut rows = v.clone();
      if meta.permute_input && rows.len() >= 2 {
         rows.reverse();
         let n = rows.len() / 2;
         rows.rotate_left(n);
      }
      if let Some(s) = &meta.val_map {
         rows = rows.iter().map(|r| r.iter().map(|x| map_val(x, s, true)).collect()).collect();
      }
      out.rels.insert(inv.get(k).map(|s| (*s).clone()).unwrap_or_else(|| k.clone()), rows);
   }
   out
}

fn map_db_to_base(db: &Db, meta: &Meta) -> Db {
   let mut out = Db::default();
   for (k, v) in &db.rels {
      let rows = match &meta.val_map {
         Some(s) => v.iter().map(|r| r.iter().map(|x| map_val(x, s, false)).collect()).collect(),
         None => v.clone(),
      };
      out.rels.insert(meta.rel_map.get(k).cloned().unwrap_or_else(|| k.clone()), rows);
   }
   out
}

/// One execution of a compiled program on `input` (names of the variant), returning the dumped relations.
pub fn exec_once(entry: &Entry, input: &Db) -> Result<(Db, String), String> {
   let r = std::panic::catch_unwind(AssertUnwindSafe(|| {
      let mut p = (entry.new)();
      for (rel, rows) in &input.rels {
         p.load(rel, rows);
      }
      p.run();
      (p.dump(), p.scc_summary())
   }));
   tick();
   r.map_err(panic_message)
}

pub enum CaseOutcome {
   TooBig,
   RefError(String),
   Done { stats: EvalStats, failures: Vec<Failure>, runs: u64, summaries: Vec<String> },
}

static PERTURB_COUNTER: AtomicU64 = AtomicU64::new(1);

pub fn run_case(group: &Group, input: &Db, plan: &ParPlan, case_seed: u64) -> CaseOutcome {
   let expected = match eval::eval(&group.ref_prog, input, EvalOpts::default()) {
      Ok(r) => r,
      Err(EvalError::TooBig) => return CaseOutcome::TooBig,
      Err(e) => return CaseOutcome::RefError(format!("{e:?}")),
   };
   tick();
   set_current(vec![group.base.clone()], input, None);
   let mut failures = vec![];
   let mut runs = 0u64;
   let mut summaries = vec![];
   for m in &group.members {
      let vinput = map_db_to_variant(input, &m.meta);
      if m.meta.check_ast {
         match eval::eval(&m.prog, &vinput, EvalOpts { max_steps: 30_000_000, max_rows: 400_000 }) {
            Ok(r) => {
               let back = map_db_to_base(&r.db, &m.meta);
               let mm = compare(&group.ref_prog, &Db::default(), &expected.db, &back, false);
               if !mm.is_empty() {
                  failures.push(Failure {
                     variant: m.meta.variant.clone(),
                     entry: m.entry.name.to_string(),
                     pool: None,
                     perturb_seed: 0,
                     kind: "selfcheck".into(),
                     mismatches: mm,
                     panic_msg: None,
                  });
               }
            },
            Err(EvalError::TooBig) => {},
            Err(e) => return CaseOutcome::RefError(format!("variant {}: {e:?}", m.meta.variant)),
         }
      }
      let par = m.meta.kind.is_par();
      let confs: Vec<(Option<usize>, u64)> = if par {
         let mut v = vec![];
         for &p in &plan.pools {
            for rep in 0..plan.reps {
               let ps = if plan.perturb && (rep % 2 == 1 || plan.reps == 1) {
                  case_seed.wrapping_mul(0x9E37_79B9).wrapping_add(PERTURB_COUNTER.fetch_add(1, Ordering::Relaxed)) | 1
               } else {
                  0
               };
               v.push((Some(p), ps));
            }
         }
         v
      } else {
         vec![(None, 0)]
      };
      for (pool, pseed) in confs {
         runs += 1;
         let res = match pool {
            None => exec_once(m.entry, &vinput),
            Some(n) => {
               vglue::hooks::perturb_arm(pseed);
               let r = pools::pool(n).install(|| exec_once(m.entry, &vinput));
               vglue::hooks::perturb_arm(0);
               r
            },
         };
         match res {
            Err(msg) => failures.push(Failure {
               variant: m.meta.variant.clone(),
               entry: m.entry.name.to_string(),
               pool,
               perturb_seed: pseed,
               kind: "panic".into(),
               mismatches: vec![],
               panic_msg: Some(msg),
            }),
            Ok((db, summ)) => {
               if summaries.len() < group.members.len() {
                  summaries.push(summ);
               }
               let back = map_db_to_base(&db, &m.meta);
               // ascent_run! variants receive their inputs through rules (captured locals), so caller duplicates
               // do not exist there: the row-multiset check uses the input as a set
               let dedup_input;
               let cmp_input = if m.meta.kind.is_run() {
                  // relations initialised with `relation r(..) = local` keep the caller's vector as it is
                  let init: Vec<String> = serde_json::from_str::<serde_json::Value>(m.entry.opts)
                     .ok()
                     .and_then(|o| o["init_rels"].as_array().map(|a| a.iter().filter_map(|x| x.as_str().map(String::from)).collect()))
                     .unwrap_or_default();
                  let mut d = dedup_db(input);
                  for name in init {
                     if let Some(rows) = input.rels.get(&name) {
                        d.rels.insert(name, rows.clone());
                     }
                  }
                  dedup_input = d;
                  &dedup_input
               } else {
                  input
               };
               let mm = compare(&group.ref_prog, cmp_input, &expected.db, &back, true);
               if !mm.is_empty() {
                  failures.push(Failure {
                     variant: m.meta.variant.clone(),
                     entry: m.entry.name.to_string(),
                     pool,
                     perturb_seed: pseed,
                     kind: "mismatch".into(),
                     mismatches: mm,
                     panic_msg: None,
                  });
               }
            },
         }
         if !failures.is_empty() {
            // one failing configuration is enough for this case
            return CaseOutcome::Done { stats: expected.stats, failures, runs, summaries };
         }
      }
   }
   CaseOutcome::Done { stats: expected.stats, failures, runs, summaries }
}

pub fn dedup_db(db: &Db) -> Db {
   let mut out = Db::default();
   for (k, rows) in &db.rels {
      let mut seen = BTreeSet::new();
      out.rels.insert(k.clone(), rows.iter().filter(|r| seen.insert((*r).clone())).cloned().collect());
   }
   out
}

pub fn show_db(db: &Db) -> String {
   let mut s = String::new();
   for (k, rows) in &db.rels {
      s.push_str(&format!("{k} = [{}]\n", rows.iter().map(crate::compare::show_row).collect::<Vec<_>>().join(", ")));
   }
   s
}

pub fn hash64(s: &str) -> u64 {
   // FNV-1a
   let mut h: u64 = 0xcbf29ce484222325;
   for b in s.bytes() {
      h ^= b as u64;
      h = h.wrapping_mul(0x100000001b3);
   }
   h
}

/// Per-property rule for what counts as a non-trivial case, and the classification labels.
pub fn classify(prop: &str, group: &Group, input: &Db, st: &EvalStats, summaries: &[String]) -> (bool, Vec<String>) {
   let mut labels = vec![];
   let looping_productive = st.sccs.iter().filter(|s| s.looping).map(|s| s.productive_rounds).max().unwrap_or(0);
   let n_scc_rules = st.sccs.iter().filter(|s| s.looping).count();
   labels.push(format!("looping_sccs={}", n_scc_rules.min(3)));
   labels.push(format!("max_productive_rounds={}", looping_productive.min(6)));
   if input.rels.values().any(|v| v.is_empty()) {
      labels.push("has_empty_input_relation".into());
   }
   let sizes: Vec<usize> = input.rels.values().map(|v| v.len()).collect();
   if let (Some(mx), Some(mn)) = (sizes.iter().max(), sizes.iter().min()) {
      if *mx >= 20 * (*mn).max(1) && sizes.len() >= 2 {
         labels.push("size_skew_20x".into());
      }
   }
   if st.multi_derived_same_round > 0 {
      labels.push("tuple_derived_twice_in_one_round".into());
   }
   if st.rederived_later > 0 {
      labels.push("tuple_rederived_in_later_round".into());
   }
   if st.max_lat_increases >= 2 {
      labels.push(format!("lattice_key_increased_{}x", st.max_lat_increases.min(5)));
   }
   for s in summaries.iter().take(1) {
      let _ = s;
   }
   let ref_summary = group.members.iter().find(|m| m.meta.is_ref).map(|m| (m.entry.summary)()).unwrap_or("");
   let mut plan_differs = false;
   for m in &group.members {
      for l in &m.meta.labels {
         labels.push(l.clone());
      }
      if !m.meta.is_ref && (m.entry.summary)() != ref_summary {
         plan_differs = true;
         labels.push(format!("plan_differs:{}", m.meta.variant));
      }
   }
   let nontrivial = match prop {
      "C06" => st.derived_new >= 1 && (plan_differs || group.members.iter().any(|m| m.meta.val_map.is_some() || m.meta.permute_input)),
      "C08" => {
         // does this input distinguish the hygienic reading from the capturing one?
         let captured = vcore::xform::expand_macros_unhygienic(&group.ref_prog);
         // (the capturing reading may be ill-typed, e.g. a macro-local `let v = 1` captured as an Option-valued argument:
         // the evaluator then panics, which also tells the two readings apart)
         let cap = std::panic::catch_unwind(std::panic::AssertUnwindSafe(|| eval::eval(&captured, input, EvalOpts::default())));
         let distinguishes = match (cap, eval::eval(&group.ref_prog, input, EvalOpts::default())) {
            (Ok(Ok(a)), Ok(b)) => a.db != b.db,
            (Err(_), Ok(_)) => true,
            _ => false,
         };
         if distinguishes {
            labels.push("input_distinguishes_capture_from_hygiene".into());
         }
         st.derived_new >= 1 && distinguishes
      },
      "C01" | "C07" | "C09" => looping_productive >= 2 && st.derived_new >= 1,
      "C02" => st.multi_derived_same_round >= 1 && st.derived_new >= 1,
      "C03" => st.max_lat_increases >= 2 && st.lat_improving_rounds >= 2,
      "C04" => (st.agg_groups_ge2 >= 1 || (st.neg_true >= 1 && st.neg_false >= 1)) && st.derived_new >= 1,
      "C05" => st.multi_derived_same_round + st.rederived_later >= 1,
      "C10" | "C11" | "C12" => st.ds_rounds_with_new >= 2,
      _ => st.derived_new >= 1,
   };
   (nontrivial, labels)
}

pub fn build_groups<'a>(entries: &'a [Entry], only: Option<&str>) -> Result<Vec<Group<'a>>, String> {
   let mut by_base: BTreeMap<String, Vec<Member<'a>>> = BTreeMap::new();
   for e in entries {
      let meta: Meta = serde_json::from_str(e.meta).map_err(|x| format!("meta of {}: {x}", e.name))?;
      let prog: Program = serde_json::from_str(e.ast).map_err(|x| format!("ast of {}: {x}", e.name))?;
      if let Some(o) = only {
         if meta.base != o {
            continue;
         }
      }
      by_base.entry(meta.base.clone()).or_default().push(Member { entry: e, meta, prog });
   }
   let mut groups = vec![];
   for (base, members) in by_base {
      let ref_prog = members
         .iter()
         .find(|m| m.meta.is_ref)
         .map(|m| m.prog.clone())
         .ok_or_else(|| format!("group {base} has no reference member"))?;
      groups.push(Group { base, ref_prog, members });
   }
   Ok(groups)
}

pub fn signature(prop: &str, failures: &[Failure]) -> String {
   let f = &failures[0];
   match f.kind.as_str() {
      "panic" => format!("{prop}:{}:panic:{}", f.variant_class(), f.panic_msg.clone().unwrap_or_default()),
      k => {
         let kinds: BTreeSet<String> = f.mismatches.iter().map(|m| format!("{:?}", m.kind)).collect();
         format!("{prop}:{}:{k}:{}", f.variant_class(), kinds.into_iter().collect::<Vec<_>>().join("+"))
      },
   }
}

/// exact signature of a fixed case: variant, kind and every mismatching row (known findings are keyed on it)
pub fn detail_signature(prop: &str, failures: &[Failure]) -> String {
   let f = &failures[0];
   let mut s = signature(prop, failures);
   for m in &f.mismatches {
      s.push_str(&format!("|{}:{:?}:{}", m.rel, m.kind, m.rows.join("")));
   }
   s
}

impl Failure {
   fn variant_class(&self) -> String { self.variant.split(':').next().unwrap_or("").to_string() }
}

pub fn run_main(entries: Vec<Entry>) -> ! {
   let args = parse_args();
   let t0 = Instant::now();
   std::panic::set_hook(Box::new(|_| {}));
   *OUT_PATH.lock().unwrap() = Some(args.out.clone());
   let _ = std::fs::remove_file(format!("{}.deadlock.json", args.out));
   start_watchdog(Duration::from_secs(180));
   if let Some(bases) = &args.members_of {
      // prints what a replay file needs to rebuild the programs of the named bases
      let groups = build_groups(&entries, None).expect("groups");
      let want: Vec<&str> = bases.split(',').collect();
      let mut members = vec![];
      let mut text = vec![];
      for g in groups.iter().filter(|g| want.contains(&g.base.as_str())) {
         members.extend(members_json(g));
         text.extend(g.members.iter().map(|m| m.entry.text.to_string()));
      }
      text.dedup();
      println!("{}", serde_json::json!({"members": members, "program_text": text.join("\n")}));
      std::process::exit(0);
   }
   let only = if args.prop == "C20" { None } else { args.only.as_deref() };
   let groups = match build_groups(&entries, only) {
      Ok(g) => g,
      Err(e) => {
         eprintln!("infrastructure error: {e}");
         std::process::exit(2);
      },
   };
   let plan = par_plan(&args.prop, &args.tier);
   let result = Mutex::new(BatchResult { programs: entries.len(), groups: groups.len(), ..Default::default() });
   let nontrivial_set: Mutex<BTreeSet<u64>> = Mutex::new(BTreeSet::new());
   let next = AtomicUsize::new(0);

   if let Some(path) = &args.replay {
      let code = replay(&args, &groups, &plan, path);
      std::process::exit(code);
   }

   // the process-wide shard count of the concurrent indices is fixed by the first use of one: make that first use happen
   // inside a pool of the requested size (4 shards in a pool of one thread, 64 in a pool of 16; sampled length
   // estimates and shard-wise merges behave differently)
   if let Ok(k) = std::env::var("VERIF_FIRST_POOL") {
      if let Ok(k) = k.parse::<usize>() {
         let n = pools::pool(k).install(vglue::shards_count_now);
         eprintln!("first use of ascent in a pool of {k} threads: shards_count = {n}");
      }
   }
   if args.prop == "C20" {
      crate::concurrent::run_all(&args, &groups, &result, &nontrivial_set);
      let mut res = result.into_inner().unwrap();
      *res.distribution.entry(format!("dashmap_shards={}", vglue::shards_count_now())).or_insert(0) += res.evaluations;
      res.nontrivial = nontrivial_set.into_inner().unwrap().len() as u64;
      res.wall_s = t0.elapsed().as_secs_f64();
      std::fs::write(&args.out, serde_json::to_string_pretty(&res).unwrap()).expect("write result");
      std::process::exit(if !res.infra_errors.is_empty() { 2 } else { 0 });
   }
   let any_par = groups.iter().any(|g| g.members.iter().any(|m| m.meta.kind.is_par()));
   let threads = if any_par { args.threads.min(4) } else { args.threads };
   std::thread::scope(|scope| {
      for _ in 0..threads.max(1) {
         scope.spawn(|| loop {
            let gi = next.fetch_add(1, Ordering::Relaxed);
            if gi >= groups.len() {
               break;
            }
            let group = &groups[gi];
            match args.prop.as_str() {
               "C13" => crate::history::run_group_history(&args, group, &result, &nontrivial_set),
               "C14" => crate::timeout::run_group_timeout(&args, group, &result, &nontrivial_set),
               _ => run_group(&args, group, &plan, &result, &nontrivial_set),
            }
         });
      }
   });
   let mut res = result.into_inner().unwrap();
   res.nontrivial = nontrivial_set.into_inner().unwrap().len() as u64;
   res.wall_s = t0.elapsed().as_secs_f64();
   if any_par {
      *res.distribution.entry(format!("dashmap_shards={}", vglue::shards_count_now())).or_insert(0) += res.evaluations;
   }
   let json = serde_json::to_string_pretty(&res).unwrap();
   std::fs::write(&args.out, json).expect("write result");
   let code = if !res.infra_errors.is_empty() { 2 } else { 0 };
   std::process::exit(code);
}

fn run_group(
   args: &Args, group: &Group, plan: &ParPlan, result: &Mutex<BatchResult>, nontrivial_set: &Mutex<BTreeSet<u64>>,
) {
   if let Some(m) = group.members.iter().find(|m| m.meta.fixed_input.is_some()) {
      // committed replay of a known finding: one fixed case, reported separately
      let input = m.meta.fixed_input.clone().unwrap();
      let id = m.meta.finding_id.clone().unwrap_or_default();
      let reps = if group.members.iter().any(|m| m.meta.kind.is_par()) { 30 } else { 1 };
      let mut out = KnownOutcome { id, failed: false, signature: None, failures: vec![] };
      for i in 0..reps {
         match run_case(group, &input, plan, args.seed ^ i) {
            CaseOutcome::Done { failures, .. } if !failures.is_empty() => {
               out.failed = true;
               out.signature = Some(detail_signature(&args.prop, &failures));
               out.failures = failures;
               break;
            },
            CaseOutcome::RefError(e) => {
               result.lock().unwrap().infra_errors.push(format!("known finding {}: reference error {e}", out.id));
               break;
            },
            _ => {},
         }
      }
      result.lock().unwrap().known.push(out);
      return;
   }
   let strat = inputs::strategy(&group.ref_prog);
   // (different process configurations draw different inputs for the same program)
   let first_pool = std::env::var("VERIF_FIRST_POOL").unwrap_or_default();
   let gseed = args.seed.wrapping_mul(0x9E37_79B9_7F4A_7C15) ^ hash64(&format!("{}{}", group.base, first_pool));
   let mut runner = TestRunner::new(Config {
      cases: args.cases,
      max_shrink_iters: 400,
      failure_persistence: None,
      rng_seed: RngSeed::Fixed(gseed),
      max_global_rejects: 100_000,
      ..Config::default()
   });
   let failed = AtomicBool::new(false);
   let case_no = AtomicU64::new(0);
   let text = group.members.iter().find(|m| m.meta.is_ref).map(|m| m.entry.text).unwrap_or("");
   let run = runner.run(&strat, |raw| {
      let input = inputs::realize(&raw, &group.ref_prog);
      let cn = case_no.fetch_add(1, Ordering::Relaxed);
      match run_case(group, &input, plan, gseed ^ cn) {
         CaseOutcome::TooBig => {
            if !failed.load(Ordering::Relaxed) {
               result.lock().unwrap().too_big += 1;
            }
            Ok(())
         },
         CaseOutcome::RefError(e) => {
            let mut r = result.lock().unwrap();
            if r.infra_errors.len() < 20 {
               r.infra_errors.push(format!("reference evaluator error on {}: {e}\n{}", group.base, text));
            }
            Ok(())
         },
         CaseOutcome::Done { stats, failures, runs, summaries } => {
            if !failed.load(Ordering::Relaxed) {
               let (nt, labels) = classify(&args.prop, group, &input, &stats, &summaries);
               let mut r = result.lock().unwrap();
               r.evaluations += 1;
               r.runs += runs;
               for l in labels {
                  *r.distribution.entry(l).or_insert(0) += 1;
               }
               if nt {
                  *r.distribution.entry("nontrivial_cases".into()).or_insert(0) += 1;
                  let h = hash64(&format!("{}|{}", text, show_db(&input)));
                  nontrivial_set.lock().unwrap().insert(h);
                  if r.samples.len() < 3 && (cn % 7 == 3 || r.samples.is_empty()) {
                     r.samples.push(serde_json::json!({
                        "program": text,
                        "input": show_db(&input),
                        "variants": group.members.iter().map(|m| m.meta.variant.clone()).collect::<Vec<_>>(),
                        "reference_rounds": stats.sccs.iter().map(|s| s.productive_rounds).collect::<Vec<_>>(),
                        "derived_new": stats.derived_new,
                     }));
                  }
               }
            }
            if failures.is_empty() {
               Ok(())
            } else {
               if std::env::var("VERIF_DEBUG_FAIL").is_ok() {
                  eprintln!("DEBUG case {cn} input {} failures {}", show_db(&input), serde_json::to_string(&failures).unwrap_or_default());
               }
               failed.store(true, Ordering::Relaxed);
               Err(TestCaseError::fail("mismatch"))
            }
         },
      }
   });
   if let Err(TestError::Fail(reason, raw)) = run {
      let input = inputs::realize(&raw, &group.ref_prog);
      // re-run on the shrunk input to collect details (repeat a few times for schedule dependent failures)
      let mut failures = vec![];
      for i in 0..5 {
         if let CaseOutcome::Done { failures: f, .. } = run_case(group, &input, plan, gseed ^ (1000 + i)) {
            if !f.is_empty() {
               failures = f;
               break;
            }
         }
      }
      let shrunk = !failures.is_empty();
      if failures.is_empty() && !format!("{reason}").contains("mismatch") {
         // the case failed with a panic inside the harness (reference evaluator, classification), not with a mismatch
         result.lock().unwrap().infra_errors.push(format!("harness panic on {}: {reason}\n{}\ninput: {}", group.base, text, show_db(&input)));
         return;
      }
      if failures.is_empty() {
         failures.push(Failure {
            variant: "?".into(),
            entry: "?".into(),
            pool: None,
            perturb_seed: 0,
            kind: "unreproduced".into(),
            mismatches: vec![],
            panic_msg: Some(format!("failure did not reproduce on the shrunk input (schedule dependent, or a panic in the harness); proptest reason: {reason}")),
         });
      }
      let rep = ViolationReport {
         property: args.prop.clone(),
         base: group.base.clone(),
         seed: args.seed,
         program_text: text.to_string(),
         ref_ast: serde_json::to_string(&group.ref_prog).unwrap(),
         input_text: show_db(&input),
         input,
         signature: signature(&args.prop, &failures),
         failures,
         shrunk,
         entries: group.members.iter().map(|m| m.entry.name.to_string()).collect(),
         members: members_json(group),
         ops: None,
      };
      result.lock().unwrap().violations.push(rep);
   } else if let Err(TestError::Abort(reason)) = run {
      result.lock().unwrap().infra_errors.push(format!("proptest aborted on {}: {reason}", group.base));
   }
}

#[derive(Deserialize)]
struct ReplayFile {
   base: String,
   input: Db,
   #[serde(default)]
   ops: Option<String>,
}

/// Re-executes one saved case (bypassing the generators). Exit 1 if it still fails.
fn replay(args: &Args, groups: &[Group], plan: &ParPlan, path: &str) -> i32 {
   let txt = match std::fs::read_to_string(path) {
      Ok(t) => t,
      Err(e) => {
         eprintln!("cannot read replay file {path}: {e}");
         return 2;
      },
   };
   let rf: ReplayFile = match serde_json::from_str(&txt) {
      Ok(r) => r,
      Err(e) => {
         eprintln!("bad replay file: {e}");
         return 2;
      },
   };
   if args.prop == "C20" {
      return crate::concurrent::replay(args, groups, rf.ops.as_deref().unwrap_or("[]"));
   }
   let Some(group) = groups.iter().find(|g| g.base == rf.base) else {
      eprintln!("replay: base {} not in this batch", rf.base);
      return 2;
   };
   if args.prop == "C14" {
      let out = crate::timeout::run_timeout_case(group, &rf.input, args.seed);
      let failed = !out.failures.is_empty();
      let j = serde_json::json!({"replayed": 1, "failed": failed as u32, "failures": out.failures,
         "signature": if failed { Some(detail_signature(&args.prop, &out.failures)) } else { None }});
      std::fs::write(&args.out, serde_json::to_string_pretty(&j).unwrap()).ok();
      return if failed { 1 } else { 0 };
   }
   if args.prop == "C13" {
      let ops: Vec<crate::history::Op> = serde_json::from_str(rf.ops.as_deref().unwrap_or("[\"Run\",\"Run\"]")).expect("ops");
      let out = crate::history::run_history(group, &rf.input, &ops);
      let failed = !out.failures.is_empty();
      let j = serde_json::json!({"replayed": 1, "failed": failed as u32, "failures": out.failures,
         "signature": if failed { Some(detail_signature(&args.prop, &out.failures)) } else { None }});
      std::fs::write(&args.out, serde_json::to_string_pretty(&j).unwrap()).ok();
      return if failed { 1 } else { 0 };
   }
   let any_par = group.members.iter().any(|m| m.meta.kind.is_par());
   let reps = if any_par { 200 } else { 1 };
   let mut fails = 0;
   let mut first = None;
   for i in 0..reps {
      match run_case(group, &rf.input, plan, args.seed ^ i) {
         CaseOutcome::Done { failures, .. } =>
            if !failures.is_empty() {
               fails += 1;
               if first.is_none() {
                  first = Some(failures);
               }
            },
         CaseOutcome::TooBig => {
            eprintln!("replay: case too big for the reference evaluator");
            return 2;
         },
         CaseOutcome::RefError(e) => {
            eprintln!("replay: reference error {e}");
            return 2;
         },
      }
   }
   let out = serde_json::json!({
      "replayed": reps, "failed": fails,
      "failures": first,
      "signature": first.as_ref().map(|f| detail_signature(&args.prop, f)),
   });
   std::fs::write(&args.out, serde_json::to_string_pretty(&out).unwrap()).ok();
   if fails > 0 { 1 } else { 0 }
}
